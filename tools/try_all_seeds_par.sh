#!/bin/bash
# Sensitivity regression in two lanes: applies every seeded change in turn (scratch worktrees, never /repo) and runs the checks named in its meta.json
cd /verif
ls seeded > /dev/shm/seedlist.txt
lane() {
  n=$1
  awk "NR % 2 == $n" /dev/shm/seedlist.txt | while read id; do
    checks=$(python3 -c "import json;print(' '.join(json.load(open('seeded/$id/meta.json')).get('checks',[])))")
    echo "== $id ($checks)"
    [ -n "$checks" ] && tools/try_seed_lane.sh $n $id $checks 2>&1 | cut -c1-220
  done > /dev/shm/regress_lane$n.log 2>&1
}
lane 0 & lane 1 & wait
cat /dev/shm/regress_lane0.log /dev/shm/regress_lane1.log
