#!/bin/bash
# usage: install_seed5.sh <author worktree> <new seed id> <property> "<needs to manifest>" <demo cmd...>
# like install_seed.sh, for rounds where a unit-test demonstration is kept as demo.diff outside the tree:
# "DEMO_DIFF=1" applies seeded/demo.diff around the demo command.
wt=$1; id=$2; prop=$3; needs=$4; shift 4
cd $wt || exit 2
git diff -- src milu > /tmp/seed_patch.diff
[ -s /tmp/seed_patch.diff ] || { echo "no change applied"; exit 2; }
cargo build --offline 2>&1 | tail -1
t=$(cargo test --workspace --no-fail-fast --offline 2>&1 | grep -E "^test result" | grep -oE "[0-9]+ passed" | awk '{s+=$1} END{print s}')
echo "suite with change: $t passed"
run_demo(){ if [ -n "$DEMO_DIFF" ]; then git apply seeded/demo.diff || return 99; "$@" > $1.log 2>&1; rc=$?; git apply -R seeded/demo.diff; return $rc; else "$@"; fi; }
run_demo "$@" > /tmp/demo_with.log 2>&1; rc_with=$?
echo "demo with change: exit $rc_with"
git apply -R /tmp/seed_patch.diff && cargo build --offline 2>&1 | tail -1
run_demo "$@" > /tmp/demo_without.log 2>&1; rc_without=$?
echo "demo without change: exit $rc_without"
if [ "$t" = "78" ] && [ $rc_with -ne 0 ] && [ $rc_without -eq 0 ]; then echo CONFIRMED; else echo NOT-CONFIRMED; exit 1; fi
d=/verif/seeded/$id; mkdir -p $d
cp /tmp/seed_patch.diff $d/patch.diff
for f in demo.py demo.sh demo.diff notes.md; do [ -f $wt/seeded/$f ] && cp $wt/seeded/$f $d/; done
demo=$(ls $d | grep -E "^demo" | head -1)
python3 - "$d" "$prop" "$needs" "$demo" <<'PY'
import json,sys
d,prop,needs,demo=sys.argv[1:5]
json.dump({"breaks_property":prop,"needs_to_manifest":needs,
 "confirmed":"tools/install_seed5.sh in the author's scratch worktree: 78/78 existing tests pass with the change; demonstration fails with the change and passes without it",
 "demonstration":demo,"checks":[prop],"produced_by":"independent sub-agent given only the property text and a scratch worktree (rounds 5-8: told which ideas had been used before)"},
 open(d+"/meta.json","w"),indent=1)
PY
cd /; git -C /repo worktree remove --force $wt && rm -rf $wt
echo "installed $id"
