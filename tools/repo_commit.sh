#!/bin/bash
# usage: repo_commit.sh "<commit message>"   -- runs the pinned suite (guard off) and commits /repo only if all 78 tests pass
set -e
cd /repo
out=$(cargo test --workspace --no-fail-fast --offline 2>&1 | grep -E "^test result|^error" || true)
echo "$out"
n=$(echo "$out" | grep -oE "[0-9]+ passed" | awk '{s+=$1} END{print s}')
if echo "$out" | grep -q "^error\|FAILED" || [ "$n" != "78" ]; then echo "NOT COMMITTED: suite does not pass ($n passed)"; exit 1; fi
git add -A src milu
git commit -q -m "$1"
git log --oneline | head -1
