#!/bin/bash
# usage: tools/thorough_all.sh [seed]   -- the thorough tier of every check, one after the other; prints one line per check and anything that is not clean
cd "$(dirname "$0")/.."
[ -n "$1" ] && export VERIF_SEED=$1
for p in C01 C02 C03 C04 C05 C06 C07 C10 C11 C12 C13 C14 C15 C16 C17 C18 C19; do
  out=$(./check $p --tier thorough 2>&1); rc=$?
  echo "$p rc=$rc $(echo "$out" | grep 'runs,' | cut -c1-170)"
  if [ $rc -ne 0 ]; then echo "$out" | grep -v "minimised" | cut -c1-600 | head -12; fi
done
