#!/bin/bash
# Sensitivity regression: applies every seeded change in turn and runs the checks named in its meta.json; /repo is restored after each.
cd /verif
for d in seeded/*/; do
  id=$(basename $d)
  checks=$(python3 -c "import json;print(' '.join(json.load(open('$d/meta.json')).get('checks',[])))")
  echo "== $id ($checks)"
  tools/try_seed.sh $id $checks 2>&1 | cut -c1-200
done
