#!/bin/bash
# usage: try_seed.sh <seed dir under /verif/seeded> <check id> [more check ids]
# Applies seeded/<dir>/patch.diff to /repo, runs the given checks (quick), and always restores /repo.
d=/verif/seeded/$1; shift
cd /repo && git diff --quiet || { echo "/repo has uncommitted changes"; exit 2; }
git -C /repo apply $d/patch.diff || { echo "patch does not apply"; exit 2; }
trap 'git -C /repo checkout -- . ' EXIT
cd /verif
for c in "$@"; do
  out=$(./check $c 2>&1); rc=$?
  echo "$c rc=$rc :: $(echo "$out" | grep -E 'violation|VIOLATION' | head -3 | cut -c1-260 | tr '\n' '|')"
done
