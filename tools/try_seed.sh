#!/bin/bash
# usage: try_seed.sh <seed dir under /verif/seeded> <check id> [more check ids]
# Applies seeded/<dir>/patch.diff to a scratch worktree of /repo's HEAD (never to /repo itself) and runs the given checks
# (quick tier) against that worktree through VERIF_REPO; the worktree is removed afterwards.
d=/verif/seeded/$1; shift
wt=/tmp/seedrepo
git -C /repo worktree remove --force $wt >/dev/null 2>&1; rm -rf $wt
git -C /repo worktree add -q --detach $wt HEAD || exit 2
trap 'git -C /repo worktree remove --force /tmp/seedrepo >/dev/null 2>&1' EXIT
git -C $wt apply $d/patch.diff || { echo "patch does not apply"; exit 2; }
cd /verif
for c in "$@"; do
  out=$(VERIF_REPO=$wt ./check $c 2>&1); rc=$?
  echo "$c rc=$rc :: $(echo "$out" | grep -E 'violation|VIOLATION|HARNESS' | head -3 | cut -c1-260 | tr '\n' '|')"
done
