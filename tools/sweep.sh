#!/bin/bash
# usage: tools/sweep.sh <first seed> <last seed> [tier]   -- runs every check for a range of master seeds; prints anything that is not clean
cd "$(dirname "$0")/.."
tier=${3:-quick}
for s in $(seq $1 $2); do
  for p in C01 C02 C03 C04 C05 C06 C07 C10 C11 C12 C13 C14 C15 C16 C17 C18 C19; do
    out=$(VERIF_SEED=$s ./check $p --tier $tier 2>&1)
    rc=$?
    echo "seed=$s $p rc=$rc $(echo "$out" | grep 'runs,' | cut -c1-150)"
    if [ $rc -ne 0 ]; then echo "$out" | grep -v "minimised" | cut -c1-600 | head -12; fi
  done
done
