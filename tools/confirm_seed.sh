#!/bin/bash
# usage: confirm_seed.sh <worktree> <demo command (run from the worktree root)>
# Confirms independently: suite passes with the change, demo fails with it, demo passes without it. Leaves the change applied.
wt=$1; shift
cd $wt || exit 2
git diff --quiet -- src milu && { echo "no change applied in $wt"; exit 2; }
cargo build --offline 2>&1 | tail -1
t=$(cargo test --workspace --no-fail-fast --offline 2>&1 | grep -E "^test result" | grep -oE "[0-9]+ passed" | awk '{s+=$1} END{print s}')
echo "suite with change: $t passed"
"$@" > /tmp/demo_with.log 2>&1; rc_with=$?
echo "demo with change: exit $rc_with"
git diff -- src milu > /tmp/seed_patch.diff
git apply -R /tmp/seed_patch.diff && cargo build --offline 2>&1 | tail -1
"$@" > /tmp/demo_without.log 2>&1; rc_without=$?
echo "demo without change: exit $rc_without"
git apply /tmp/seed_patch.diff && cargo build --offline 2>&1 | tail -1
if [ "$t" = "78" ] && [ $rc_with -ne 0 ] && [ $rc_without -eq 0 ]; then echo CONFIRMED; else echo NOT-CONFIRMED; fi
