#!/bin/bash
# usage: try_seed_lane.sh <lane> <seed dir under /verif/seeded> <check id> [more check ids]
# like try_seed.sh, with its own scratch worktree and alternative build directory per lane, so that lanes can run side by side
lane=$1; d=/verif/seeded/$2; shift 2
wt=/tmp/seedrepo-$lane
git -C /repo worktree remove --force $wt >/dev/null 2>&1; rm -rf $wt
git -C /repo worktree add -q --detach $wt HEAD || exit 2
trap "git -C /repo worktree remove --force $wt >/dev/null 2>&1" EXIT
git -C $wt apply $d/patch.diff || { echo "patch does not apply"; exit 2; }
cd /verif
for c in "$@"; do
  out=$(VERIF_ALT_DIR=sim-alt-$lane VERIF_REPO=$wt ./check $c 2>&1); rc=$?
  echo "$c rc=$rc :: $(echo "$out" | grep -E 'violation|VIOLATION|HARNESS' | head -3 | cut -c1-260 | tr '\n' '|')"
done
