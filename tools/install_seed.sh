#!/bin/bash
# usage: install_seed.sh <author worktree> <new seed id> <property> "<needs to manifest>" <demo cmd...>
# Confirms the seeded change in the author's worktree, copies it to /verif/seeded/<id>/, removes the worktree.
wt=$1; id=$2; prop=$3; needs=$4; shift 4
out=$(/verif/tools/confirm_seed.sh $wt "$@" 2>&1); echo "$out" | tail -5
echo "$out" | grep -q "^CONFIRMED" || { echo "NOT CONFIRMED - left in place"; exit 1; }
d=/verif/seeded/$id; mkdir -p $d
git -C $wt diff -- src milu > $d/patch.diff
for f in demo.py demo.sh demo.diff notes.md; do [ -f $wt/seeded/$f ] && cp $wt/seeded/$f $d/; done
demo=$(ls $d | grep -E "^demo" | head -1)
python3 - "$d" "$prop" "$needs" "$demo" <<'PY'
import json,sys
d,prop,needs,demo=sys.argv[1:5]
json.dump({"breaks_property":prop,"needs_to_manifest":needs,
 "confirmed":"tools/confirm_seed.sh in the author's scratch worktree: 78/78 existing tests pass with the change; demonstration fails with the change and passes without it",
 "demonstration":demo,"checks":[prop],"produced_by":"independent sub-agent given only the property text and a scratch worktree (round 3: told which ideas had been used before)"},
 open(d+"/meta.json","w"),indent=1)
PY
git -C /repo worktree remove --force $wt && rm -rf $wt
echo "installed $id"
