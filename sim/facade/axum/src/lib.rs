//! Facade over axum 0.6: `Server::bind` serves on a simulated listener; hyper and the
//! repository's router/handlers are real.

pub use real_axum::*;

use std::net::SocketAddr;
use std::pin::Pin;
use std::task::{Context, Poll};

pub struct SimIncoming {
    listener: tokio::net::TcpListener,
}

impl hyper::server::accept::Accept for SimIncoming {
    type Conn = tokio::net::TcpStream;
    type Error = std::io::Error;
    fn poll_accept(self: Pin<&mut Self>, cx: &mut Context<'_>) -> Poll<Option<Result<Self::Conn, Self::Error>>> {
        match self.listener.poll_accept(cx) {
            Poll::Ready(Ok((s, _))) => Poll::Ready(Some(Ok(s))),
            Poll::Ready(Err(e)) => Poll::Ready(Some(Err(e))),
            Poll::Pending => Poll::Pending,
        }
    }
}

pub struct Server;

impl Server {
    pub fn bind(addr: &SocketAddr) -> hyper::server::Builder<SimIncoming> {
        Self::try_bind(addr).unwrap_or_else(|e| panic!("error binding to {}: {}", addr, e))
    }
    pub fn try_bind(addr: &SocketAddr) -> std::io::Result<hyper::server::Builder<SimIncoming>> {
        let listener = tokio::net::TcpListener::sim_bind_proxy(*addr)?;
        let mut b = hyper::Server::builder(SimIncoming { listener });
        // hyper's write buffer is a tuning knob: with the default (about 400 KB) no answer of a simulated run ever meets
        // back-pressure inside the server
        let n = tokio::sim::with(|w| w.cfg.api_buf);
        if n >= 8192 {
            b = b.http1_max_buf_size(n);
        }
        Ok(b)
    }
}
