//! Facade over nix 0.26: identical to the real crate except that UDP sockets created with
//! raw `socket()` are not really bound/connected; the intended addresses are recorded so
//! that `tokio::net::UdpSocket::from_std` (facade) can adopt the socket into the simulation.
//! Everything else (splice, pipe, setsockopt, fcntl, ...) is the real thing.

pub use real_nix::*;

pub mod sys {
    pub use real_nix::sys::*;

    pub mod socket {
        pub use real_nix::sys::socket::*;
        use real_nix::Result;
        use std::net::{IpAddr, Ipv4Addr, Ipv6Addr, SocketAddr};
        use std::os::unix::io::RawFd;

        fn to_std(addr: &dyn SockaddrLike) -> Option<SocketAddr> {
            unsafe {
                let p = addr.as_ptr();
                if p.is_null() {
                    return None;
                }
                match (*p).sa_family as i32 {
                    libc::AF_INET => {
                        let a = &*(p as *const libc::sockaddr_in);
                        let ip = Ipv4Addr::from(u32::from_be(a.sin_addr.s_addr));
                        Some(SocketAddr::new(IpAddr::V4(ip), u16::from_be(a.sin_port)))
                    }
                    libc::AF_INET6 => {
                        let a = &*(p as *const libc::sockaddr_in6);
                        let ip = Ipv6Addr::from(a.sin6_addr.s6_addr);
                        Some(SocketAddr::new(IpAddr::V6(ip), u16::from_be(a.sin6_port)))
                    }
                    _ => None,
                }
            }
        }

        pub fn socket<T: Into<Option<SockProtocol>>>(
            domain: AddressFamily,
            ty: SockType,
            flags: SockFlag,
            protocol: T,
        ) -> Result<RawFd> {
            let fd = real_nix::sys::socket::socket(domain, ty, flags, protocol)?;
            if ty == SockType::Datagram && (domain == AddressFamily::Inet || domain == AddressFamily::Inet6) {
                tokio::net::raw_intent_set(fd, |_| {});
            }
            Ok(fd)
        }

        pub fn bind(fd: RawFd, addr: &dyn SockaddrLike) -> Result<()> {
            let mut known = false;
            if let Some(a) = to_std(addr) {
                if tokio::net::raw_intent_known(fd) {
                    known = true;
                    tokio::net::raw_intent_set(fd, |i| i.local = Some(a));
                }
            }
            if known {
                Ok(())
            } else {
                real_nix::sys::socket::bind(fd, addr)
            }
        }

        pub fn connect(fd: RawFd, addr: &dyn SockaddrLike) -> Result<()> {
            let mut known = false;
            if let Some(a) = to_std(addr) {
                if tokio::net::raw_intent_known(fd) {
                    known = true;
                    tokio::net::raw_intent_set(fd, |i| i.remote = Some(a));
                }
            }
            if known {
                Ok(())
            } else {
                real_nix::sys::socket::connect(fd, addr)
            }
        }
    }
}
