//! Facade over nix 0.26: identical to the real crate except that UDP sockets created with
//! raw `socket()` are not really bound/connected; the intended addresses are recorded so
//! that `tokio::net::UdpSocket::from_std` (facade) can adopt the socket into the simulation.
//! Everything else (splice, pipe, setsockopt, fcntl, ...) is the real thing.

pub use real_nix::*;

pub mod fcntl {
    pub use real_nix::fcntl::*;
    use std::os::unix::io::RawFd;

    /// splice(2) with seeded short counts (a legal kernel outcome that real sockets produce under
    /// back-pressure and AF_UNIX pairs do not): the requested length is clamped by the simulation.
    pub fn splice(
        fd_in: RawFd,
        off_in: Option<&mut libc::loff_t>,
        fd_out: RawFd,
        off_out: Option<&mut libc::loff_t>,
        len: usize,
        flags: SpliceFFlags,
    ) -> real_nix::Result<usize> {
        let len = tokio::sim::short_splice_len(len);
        real_nix::fcntl::splice(fd_in, off_in, fd_out, off_out, len, flags)
    }
}

pub mod sys {
    pub use real_nix::sys::*;

    pub mod socket {
        pub use real_nix::sys::socket::*;
        use real_nix::Result;
        use std::net::{IpAddr, Ipv4Addr, Ipv6Addr, SocketAddr};
        use std::os::unix::io::RawFd;

        fn to_std(addr: &dyn SockaddrLike) -> Option<SocketAddr> {
            unsafe {
                let p = addr.as_ptr();
                if p.is_null() {
                    return None;
                }
                match (*p).sa_family as i32 {
                    libc::AF_INET => {
                        let a = &*(p as *const libc::sockaddr_in);
                        let ip = Ipv4Addr::from(u32::from_be(a.sin_addr.s_addr));
                        Some(SocketAddr::new(IpAddr::V4(ip), u16::from_be(a.sin_port)))
                    }
                    libc::AF_INET6 => {
                        let a = &*(p as *const libc::sockaddr_in6);
                        let ip = Ipv6Addr::from(a.sin6_addr.s6_addr);
                        Some(SocketAddr::new(IpAddr::V6(ip), u16::from_be(a.sin6_port)))
                    }
                    _ => None,
                }
            }
        }

        pub fn socket<T: Into<Option<SockProtocol>>>(
            domain: AddressFamily,
            ty: SockType,
            flags: SockFlag,
            protocol: T,
        ) -> Result<RawFd> {
            let fd = real_nix::sys::socket::socket(domain, ty, flags, protocol)?;
            if ty == SockType::Datagram && (domain == AddressFamily::Inet || domain == AddressFamily::Inet6) {
                tokio::net::raw_intent_set(fd, |_| {});
            }
            Ok(fd)
        }

        /// SO_ORIGINAL_DST / IP6T_SO_ORIGINAL_DST on a simulated stream: answered from the simulation
        /// (the destination the diverted client addressed), ENOENT when the connection was not diverted.
        pub fn getsockopt<O: GetSockOpt + 'static>(fd: RawFd, opt: O) -> Result<O::Val> {
            use std::any::TypeId;
            let t = TypeId::of::<O>();
            let v4 = t == TypeId::of::<sockopt::OriginalDst>();
            let v6 = t == TypeId::of::<sockopt::Ip6tOriginalDst>();
            if v4 || v6 {
                if let Some(ans) = tokio::net::sim_original_dst(fd) {
                    return match ans {
                        Some(SocketAddr::V4(a)) if v4 => {
                            let mut sa: libc::sockaddr_in = unsafe { std::mem::zeroed() };
                            sa.sin_family = libc::AF_INET as libc::sa_family_t;
                            sa.sin_port = a.port().to_be();
                            sa.sin_addr.s_addr = u32::from(*a.ip()).to_be();
                            assert_eq!(std::mem::size_of::<O::Val>(), std::mem::size_of::<libc::sockaddr_in>());
                            Ok(unsafe { std::mem::transmute_copy::<libc::sockaddr_in, O::Val>(&sa) })
                        }
                        Some(SocketAddr::V6(a)) if v6 => {
                            let mut sa: libc::sockaddr_in6 = unsafe { std::mem::zeroed() };
                            sa.sin6_family = libc::AF_INET6 as libc::sa_family_t;
                            sa.sin6_port = a.port().to_be();
                            sa.sin6_addr.s6_addr = a.ip().octets();
                            assert_eq!(std::mem::size_of::<O::Val>(), std::mem::size_of::<libc::sockaddr_in6>());
                            Ok(unsafe { std::mem::transmute_copy::<libc::sockaddr_in6, O::Val>(&sa) })
                        }
                        _ => Err(real_nix::errno::Errno::ENOENT),
                    };
                }
            }
            real_nix::sys::socket::getsockopt(fd, opt)
        }

        /// SO_REUSEADDR on a simulated datagram socket is remembered: on Linux it also changes which ports the
        /// automatic choice (bind to port 0) may hand out.
        pub fn setsockopt<O: SetSockOpt + 'static>(fd: RawFd, opt: O, val: &O::Val) -> Result<()> {
            if std::any::TypeId::of::<O>() == std::any::TypeId::of::<sockopt::ReuseAddr>() && tokio::net::raw_intent_known(fd) {
                tokio::net::raw_intent_set(fd, |i| i.reuse = true);
            }
            real_nix::sys::socket::setsockopt(fd, opt, val)
        }

        pub fn bind(fd: RawFd, addr: &dyn SockaddrLike) -> Result<()> {
            let mut known = false;
            if let Some(a) = to_std(addr) {
                if tokio::net::raw_intent_known(fd) {
                    known = true;
                    tokio::net::raw_intent_set(fd, |i| i.local = Some(a));
                }
            }
            if known {
                Ok(())
            } else {
                real_nix::sys::socket::bind(fd, addr)
            }
        }

        pub fn connect(fd: RawFd, addr: &dyn SockaddrLike) -> Result<()> {
            let mut known = false;
            if let Some(a) = to_std(addr) {
                if tokio::net::raw_intent_known(fd) {
                    known = true;
                    tokio::net::raw_intent_set(fd, |i| i.remote = Some(a));
                }
            }
            if known {
                Ok(())
            } else {
                real_nix::sys::socket::connect(fd, addr)
            }
        }
    }
}
