//! Facade over tokio 1.36: everything is re-exported from the real crate except the items
//! defined here, which put sockets, files, child processes, signals, task start order and
//! the runtime flavour under the deterministic simulation (`tokio::sim`).
//!
//! Every other crate in the dependency graph (tokio-rustls, quinn, hyper, ...) keeps using
//! the real tokio, whose `AsyncRead`/`AsyncWrite`/`spawn`/`time`/`sync` are the very same
//! items this facade re-exports.

pub use real_tokio::*;

pub mod fs;
pub mod net;
pub mod process;
pub mod signal;
pub mod sim;
pub mod sync;

pub mod runtime {
    pub use real_tokio::runtime::*;

    /// `#[tokio::main]` expands to `tokio::runtime::Builder::new_multi_thread()...`; here it
    /// yields a current-thread runtime with a paused clock and a seeded scheduler RNG.
    pub struct Builder {
        inner: real_tokio::runtime::Builder,
    }

    impl Builder {
        fn make() -> Self {
            let _ = crate::sim::clock::keep_symbols() ^ crate::sim::resolv::keep_symbols();
            let seed = crate::sim::clock::env_seed();
            let mut b = real_tokio::runtime::Builder::new_current_thread();
            b.start_paused(true);
            b.rng_seed(real_tokio::runtime::RngSeed::from_bytes(&seed.to_le_bytes()));
            Builder { inner: b }
        }
        pub fn new_multi_thread() -> Self {
            Self::make()
        }
        pub fn new_current_thread() -> Self {
            Self::make()
        }
        pub fn enable_all(&mut self) -> &mut Self {
            self.inner.enable_all();
            self
        }
        pub fn enable_io(&mut self) -> &mut Self {
            self.inner.enable_io();
            self
        }
        pub fn enable_time(&mut self) -> &mut Self {
            self.inner.enable_time();
            self
        }
        pub fn worker_threads(&mut self, _n: usize) -> &mut Self {
            self
        }
        pub fn max_blocking_threads(&mut self, _n: usize) -> &mut Self {
            self
        }
        pub fn thread_name(&mut self, _n: impl Into<String>) -> &mut Self {
            self
        }
        pub fn thread_stack_size(&mut self, _n: usize) -> &mut Self {
            self
        }
        pub fn build(&mut self) -> std::io::Result<Runtime> {
            Ok(Runtime { inner: self.inner.build()? })
        }
    }

    /// The runtime `#[tokio::main]` runs on. When the main future ends, the multi-threaded runtime of the shipped binary
    /// shuts down while its workers are still running: tasks are dropped one after the other, in no particular order,
    /// and a task woken by the disappearance of another (a channel whose last sender went away) can still be polled.
    /// `block_on` reproduces that as a seeded shutdown: the tasks are cancelled in a seeded order, with scheduler turns
    /// in between.
    pub struct Runtime {
        inner: real_tokio::runtime::Runtime,
    }

    impl Runtime {
        pub fn block_on<F: std::future::Future>(&self, future: F) -> F::Output {
            self.inner.block_on(async move {
                let out = future.await;
                crate::seeded_shutdown().await;
                out
            })
        }
        pub fn handle(&self) -> &real_tokio::runtime::Handle {
            self.inner.handle()
        }
        pub fn enter(&self) -> real_tokio::runtime::EnterGuard<'_> {
            self.inner.enter()
        }
    }
}

static TASKS: std::sync::Mutex<Vec<real_tokio::task::AbortHandle>> = std::sync::Mutex::new(Vec::new());

fn remember(h: real_tokio::task::AbortHandle) {
    let mut t = TASKS.lock().unwrap();
    if t.len() >= 4096 {
        t.retain(|h| !h.is_finished());
    }
    t.push(h);
}

static SHUTTING_DOWN: std::sync::atomic::AtomicBool = std::sync::atomic::AtomicBool::new(false);

pub fn shutting_down() -> bool {
    SHUTTING_DOWN.load(std::sync::atomic::Ordering::Relaxed)
}

async fn seeded_shutdown() {
    if !sim::is_started() {
        return;
    }
    SHUTTING_DOWN.store(true, std::sync::atomic::Ordering::Relaxed);
    let mut tasks: Vec<_> = std::mem::take(&mut *TASKS.lock().unwrap()).into_iter().filter(|h| !h.is_finished()).collect();
    sim::with(|w| {
        for i in (1..tasks.len()).rev() {
            let j = w.sched_rng.below(i as u64 + 1) as usize;
            tasks.swap(i, j);
        }
        w.count("shutdown_tasks_cancelled");
    });
    for h in tasks {
        h.abort();
        for _ in 0..3 {
            real_tokio::task::yield_now().await;
        }
    }
}

/// `tokio::spawn` with a seeded number (0–2) of extra yields before the task's first poll,
/// so that sibling tasks do not always start in spawn order.
#[track_caller]
pub fn spawn<F>(future: F) -> real_tokio::task::JoinHandle<F::Output>
where
    F: std::future::Future + Send + 'static,
    F::Output: Send + 'static,
{
    let k = if sim::is_started() {
        sim::with(|w| {
            let p = w.cfg.spawn_yield;
            if p > 0 && w.sched_rng.chance(p) {
                let k = 1 + w.sched_rng.below(2);
                w.count("spawn_yield");
                k
            } else {
                0
            }
        })
    } else {
        0
    };
    let h = if k == 0 {
        real_tokio::spawn(future)
    } else {
        real_tokio::spawn(async move {
            for _ in 0..k {
                real_tokio::task::yield_now().await;
            }
            future.await
        })
    };
    remember(h.abort_handle());
    h
}

pub mod task {
    pub use super::spawn;
    pub use real_tokio::task::*;
}
