//! Facade over tokio 1.36: everything is re-exported from the real crate except the items
//! defined here, which put sockets, files, child processes, signals, task start order and
//! the runtime flavour under the deterministic simulation (`tokio::sim`).
//!
//! Every other crate in the dependency graph (tokio-rustls, quinn, hyper, ...) keeps using
//! the real tokio, whose `AsyncRead`/`AsyncWrite`/`spawn`/`time`/`sync` are the very same
//! items this facade re-exports.

pub use real_tokio::*;

pub mod fs;
pub mod net;
pub mod process;
pub mod signal;
pub mod sim;
pub mod sync;

pub mod runtime {
    pub use real_tokio::runtime::*;

    /// `#[tokio::main]` expands to `tokio::runtime::Builder::new_multi_thread()...`; here it
    /// yields a current-thread runtime with a paused clock and a seeded scheduler RNG.
    pub struct Builder {
        inner: real_tokio::runtime::Builder,
    }

    impl Builder {
        fn make() -> Self {
            let _ = crate::sim::clock::keep_symbols() ^ crate::sim::resolv::keep_symbols();
            let seed = crate::sim::clock::env_seed();
            let mut b = real_tokio::runtime::Builder::new_current_thread();
            b.start_paused(true);
            b.rng_seed(real_tokio::runtime::RngSeed::from_bytes(&seed.to_le_bytes()));
            Builder { inner: b }
        }
        pub fn new_multi_thread() -> Self {
            Self::make()
        }
        pub fn new_current_thread() -> Self {
            Self::make()
        }
        pub fn enable_all(&mut self) -> &mut Self {
            self.inner.enable_all();
            self
        }
        pub fn enable_io(&mut self) -> &mut Self {
            self.inner.enable_io();
            self
        }
        pub fn enable_time(&mut self) -> &mut Self {
            self.inner.enable_time();
            self
        }
        pub fn worker_threads(&mut self, _n: usize) -> &mut Self {
            self
        }
        pub fn max_blocking_threads(&mut self, _n: usize) -> &mut Self {
            self
        }
        pub fn thread_name(&mut self, _n: impl Into<String>) -> &mut Self {
            self
        }
        pub fn thread_stack_size(&mut self, _n: usize) -> &mut Self {
            self
        }
        pub fn build(&mut self) -> std::io::Result<Runtime> {
            self.inner.build()
        }
    }
}

/// `tokio::spawn` with a seeded number (0–2) of extra yields before the task's first poll,
/// so that sibling tasks do not always start in spawn order.
#[track_caller]
pub fn spawn<F>(future: F) -> real_tokio::task::JoinHandle<F::Output>
where
    F: std::future::Future + Send + 'static,
    F::Output: Send + 'static,
{
    let k = if sim::is_started() {
        sim::with(|w| {
            let p = w.cfg.spawn_yield;
            if p > 0 && w.sched_rng.chance(p) {
                let k = 1 + w.sched_rng.below(2);
                w.count("spawn_yield");
                k
            } else {
                0
            }
        })
    } else {
        0
    };
    if k == 0 {
        real_tokio::spawn(future)
    } else {
        real_tokio::spawn(async move {
            for _ in 0..k {
                real_tokio::task::yield_now().await;
            }
            future.await
        })
    }
}

pub mod task {
    pub use super::spawn;
    pub use real_tokio::task::*;
}
