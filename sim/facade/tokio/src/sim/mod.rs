//! The simulated world: one seeded, single-threaded universe holding every TCP connection,
//! UDP socket, listener, DNS entry, file and pending delivery. Everything the proxy does
//! through `tokio::net` / `tokio::fs` / `tokio::process` / `tokio::signal` ends up here.
//!
//! Time is the paused tokio clock; delayed deliveries are entries in one priority queue
//! ordered by (virtual time, sequence number) that a single driver task drains.

use std::collections::{BTreeMap, BinaryHeap, HashMap, HashSet, VecDeque};
use std::io;
use std::net::{IpAddr, Ipv4Addr, Ipv6Addr, SocketAddr};
use std::path::PathBuf;
use std::sync::{Arc, Mutex, MutexGuard};
use std::task::Waker;
use std::time::Duration;

pub mod clock;
pub mod resolv;
pub mod tcp;
pub mod udp;

pub use tcp::{tcp_connect_diverted, tcp_connect_from, tcp_listen, tcp_reset, tcp_reset_id, SimTcpInfo};
pub use udp::{udp_bind_at, udp_inject_error};

/// splitmix64 based PRNG: tiny, fast, identical on every platform.
#[derive(Clone, Debug)]
pub struct Rng(pub u64);

impl Rng {
    pub fn new(seed: u64) -> Self {
        Rng(seed ^ 0x9E37_79B9_7F4A_7C15)
    }
    pub fn derive(seed: u64, label: &str) -> Self {
        let mut h = seed ^ 0xcbf2_9ce4_8422_2325;
        for b in label.as_bytes() {
            h ^= *b as u64;
            h = h.wrapping_mul(0x0000_0100_0000_01b3);
        }
        let mut r = Rng(h);
        r.next_u64();
        r
    }
    pub fn next_u64(&mut self) -> u64 {
        self.0 = self.0.wrapping_add(0x9E37_79B9_7F4A_7C15);
        let mut z = self.0;
        z = (z ^ (z >> 30)).wrapping_mul(0xBF58_476D_1CE4_E5B9);
        z = (z ^ (z >> 27)).wrapping_mul(0x94D0_49BB_1331_11EB);
        z ^ (z >> 31)
    }
    /// uniform in [0, n)
    pub fn below(&mut self, n: u64) -> u64 {
        if n == 0 {
            0
        } else {
            self.next_u64() % n
        }
    }
    /// true with probability p/1000
    pub fn chance(&mut self, per_mille: u32) -> bool {
        per_mille > 0 && self.below(1000) < per_mille as u64
    }
    pub fn range(&mut self, lo: u64, hi: u64) -> u64 {
        if hi <= lo {
            lo
        } else {
            lo + self.below(hi - lo + 1)
        }
    }
    pub fn fill(&mut self, buf: &mut [u8]) {
        let mut i = 0;
        while i < buf.len() {
            let v = self.next_u64().to_le_bytes();
            let n = (buf.len() - i).min(8);
            buf[i..i + n].copy_from_slice(&v[..n]);
            i += n;
        }
    }
}

/// Network chaos parameters (per connection; drawn from the connection's own PRNG stream).
#[derive(Clone, Debug)]
pub struct Chaos {
    /// max one-way delay of a TCP segment / UDP datagram in microseconds
    pub delay_max_us: u64,
    /// min one-way delay
    pub delay_min_us: u64,
    /// probability (per mille) that a write accepts only a random prefix
    pub short_write: u32,
    /// probability (per mille) that a read returns only part of what has arrived
    pub short_read: u32,
    /// probability (per mille) of a spurious Pending + self wake at an I/O call
    pub pending: u32,
    /// pipe capacity in bytes (0 = draw from the connection PRNG)
    pub capacity: usize,
    /// UDP loss / duplication (per mille); reordering comes from independent delays
    pub udp_loss: u32,
    pub udp_dup: u32,
    /// UDP: independent per-datagram delays (reordering) when true, FIFO otherwise
    pub udp_reorder: bool,
    /// probability (per mille) that consecutive TCP writes are glued into one segment
    pub glue: u32,
}

impl Chaos {
    pub fn none() -> Self {
        Chaos {
            delay_max_us: 0,
            delay_min_us: 0,
            short_write: 0,
            short_read: 0,
            pending: 0,
            capacity: 1 << 20,
            udp_loss: 0,
            udp_dup: 0,
            udp_reorder: false,
            glue: 0,
        }
    }
}

#[derive(Clone, Copy, Debug, PartialEq, Eq)]
pub enum Backend {
    Mem,
    Kernel,
}

#[derive(Clone, Debug)]
pub struct Config {
    pub seed: u64,
    pub backend: Backend,
    pub chaos: Chaos,
    pub proxy_v4: Ipv4Addr,
    pub proxy_v6: Ipv6Addr,
    /// probability (per mille) of 1–2 extra yields before a spawned task's first poll
    pub spawn_yield: u32,
    /// probability (per mille) of 1-3 yields before an asynchronous lock (tokio::sync::{RwLock, Mutex}) is acquired
    pub lock_yield: u32,
    /// write-buffer limit of the management API's HTTP server (0: hyper's default, about 400 KB); a tuning knob, varied per plan
    pub api_buf: usize,
    /// probability (per mille) that a UDP socket with SO_REUSEADDR bound to port 0 is given a port another such socket holds
    pub udp_port_reuse: u32,
    /// deliver ICMP port-unreachable as ECONNREFUSED on connected UDP sockets
    pub udp_icmp: bool,
}

impl Default for Config {
    fn default() -> Self {
        Config {
            seed: 0,
            backend: Backend::Mem,
            chaos: Chaos::none(),
            proxy_v4: Ipv4Addr::new(10, 0, 0, 1),
            proxy_v6: "fd00::1".parse().unwrap(),
            spawn_yield: 0,
            lock_yield: 0,
            api_buf: 0,
            udp_port_reuse: 0,
            udp_icmp: false,
        }
    }
}

#[derive(Clone, Debug)]
pub struct Event {
    pub seq: u64,
    pub t_us: u64,
    pub kind: &'static str,
    pub id: u64,
    pub n: u64,
    pub s: String,
}

#[derive(Clone, Debug)]
pub enum DnsAnswer {
    Addrs(Vec<IpAddr>),
    NxDomain,
    /// answer after a delay in ms
    Delayed(u64, Vec<IpAddr>),
}

#[derive(Clone, Debug)]
pub struct CmdOutcome {
    pub spawn_fail: bool,
    pub exit_code: i32,
    pub latency_ms: u64,
}

pub(crate) enum Ev {
    TcpDeliver { conn: u64, dir: usize },
    UdpDeliver { dgram: udp::Dgram },
    Wake(Waker),
}

pub(crate) struct Timed {
    pub t: u64,
    pub seq: u64,
    pub ev: Ev,
}
impl PartialEq for Timed {
    fn eq(&self, o: &Self) -> bool {
        self.t == o.t && self.seq == o.seq
    }
}
impl Eq for Timed {}
impl PartialOrd for Timed {
    fn partial_cmp(&self, o: &Self) -> Option<std::cmp::Ordering> {
        Some(self.cmp(o))
    }
}
impl Ord for Timed {
    fn cmp(&self, o: &Self) -> std::cmp::Ordering {
        // reversed: BinaryHeap is a max-heap
        (o.t, o.seq).cmp(&(self.t, self.seq))
    }
}

pub struct World {
    pub cfg: Config,
    pub(crate) seq: u64,
    pub(crate) heap: BinaryHeap<Timed>,
    pub(crate) parked: Vec<Timed>,
    pub(crate) conns: HashMap<u64, tcp::ConnState>,
    pub(crate) listeners: BTreeMap<SocketAddr, tcp::ListenerState>,
    pub(crate) udp: BTreeMap<u64, Arc<Mutex<udp::UdpState>>>,
    pub(crate) next_id: u64,
    pub(crate) next_port: u16,
    pub(crate) stalled: HashSet<IpAddr>,
    pub(crate) unreachable: HashSet<IpAddr>,
    /// hosts that never receive a datagram (one-way loss towards them): a peer stuck in the middle of a handshake
    pub(crate) muted: HashSet<IpAddr>,
    /// accept(2) errors waiting to be returned by the listener on that port (ECONNABORTED, EMFILE, ...)
    pub(crate) accept_errors: Vec<(u16, i32)>,
    pub(crate) dns: HashMap<String, DnsAnswer>,
    pub(crate) files: HashMap<PathBuf, Vec<u8>>,
    pub(crate) events: Vec<Event>,
    pub(crate) log_hash: u64,
    pub(crate) shape_hash: u64,
    pub(crate) keep_events: bool,
    pub(crate) sched_rng: Rng,
    pub(crate) conn_count_by_label: HashMap<String, u64>,
    pub(crate) cmd_handler: Option<Box<dyn Fn(&[String]) -> CmdOutcome + Send>>,
    pub(crate) signal_tx: Vec<(i32, real_tokio::sync::mpsc::UnboundedSender<()>)>,
    pub(crate) driver_notify: Arc<real_tokio::sync::Notify>,
    pub(crate) change_notify: Arc<real_tokio::sync::Notify>,
    pub counters: BTreeMap<&'static str, u64>,
    pub harness_error: Option<String>,
    pub proxy_listeners: Vec<SocketAddr>,
}

static WORLD: Mutex<Option<World>> = Mutex::new(None);

pub(crate) struct WorldGuard(MutexGuard<'static, Option<World>>);
impl std::ops::Deref for WorldGuard {
    type Target = World;
    fn deref(&self) -> &World {
        self.0.as_ref().expect("sim world not started")
    }
}
impl std::ops::DerefMut for WorldGuard {
    fn deref_mut(&mut self) -> &mut World {
        self.0.as_mut().expect("sim world not started")
    }
}

pub(crate) fn world() -> WorldGuard {
    WorldGuard(WORLD.lock().unwrap_or_else(|e| e.into_inner()))
}

pub fn with<R>(f: impl FnOnce(&mut World) -> R) -> R {
    let mut w = world();
    f(&mut w)
}

/// Kernel lane fault: splice(2) may move any count in 1..=len. With the plan's `short_write` rate the
/// request is clamped to a seeded shorter length (nix facade, `fcntl::splice`).
pub fn short_splice_len(len: usize) -> usize {
    if len <= 1 || !is_started() {
        return len;
    }
    let mut w = world();
    let pm = w.cfg.chaos.short_write;
    if pm > 0 && w.sched_rng.chance(pm) {
        w.count("short_splice");
        1 + w.sched_rng.below(len as u64 - 1) as usize
    } else {
        len
    }
}

pub fn is_started() -> bool {
    WORLD.lock().unwrap_or_else(|e| e.into_inner()).is_some()
}

/// Virtual microseconds since the simulation started.
pub fn now_us() -> u64 {
    clock::elapsed_us()
}

impl World {
    pub(crate) fn fresh_id(&mut self) -> u64 {
        self.next_id += 1;
        self.next_id
    }
    pub(crate) fn fresh_port(&mut self) -> u16 {
        let p = self.next_port;
        self.next_port = if self.next_port >= 60999 { 40000 } else { self.next_port + 1 };
        p
    }
    pub fn count(&mut self, k: &'static str) {
        *self.counters.entry(k).or_insert(0) += 1;
    }
    pub fn count_n(&mut self, k: &'static str, n: u64) {
        *self.counters.entry(k).or_insert(0) += n;
    }
    pub fn log(&mut self, kind: &'static str, id: u64, n: u64, s: String) -> u64 {
        self.seq += 1;
        let t_us = now_us();
        let mut h = self.log_hash;
        for b in kind
            .as_bytes()
            .iter()
            .chain(id.to_le_bytes().iter())
            .chain(n.to_le_bytes().iter())
            .chain(t_us.to_le_bytes().iter())
            .chain(s.as_bytes().iter())
        {
            h ^= *b as u64;
            h = h.wrapping_mul(0x0000_0100_0000_01b3);
        }
        self.log_hash = h;
        let mut sh = self.shape_hash;
        for b in kind.as_bytes().iter().chain(id.to_le_bytes().iter()) {
            sh ^= *b as u64;
            sh = sh.wrapping_mul(0x0000_0100_0000_01b3);
        }
        self.shape_hash = sh;
        if !self.keep_events {
            return self.seq;
        }
        self.events.push(Event {
            seq: self.seq,
            t_us,
            kind,
            id,
            n,
            s,
        });
        self.seq
    }
    /// next global sequence number without logging (stamps for actor transcripts)
    pub fn stamp(&mut self) -> u64 {
        self.seq += 1;
        self.seq
    }
    pub(crate) fn schedule(&mut self, at_us: u64, ev: Ev) {
        self.seq += 1;
        let seq = self.seq;
        self.heap.push(Timed { t: at_us, seq, ev });
        self.driver_notify.notify_one();
    }
    pub fn is_proxy_ip(&self, ip: &IpAddr) -> bool {
        match ip {
            IpAddr::V4(a) => *a == self.cfg.proxy_v4 || a.is_loopback(),
            IpAddr::V6(a) => {
                *a == self.cfg.proxy_v6
                    || a.is_loopback()
                    || a.to_ipv4_mapped().map(|m| m == self.cfg.proxy_v4 || m.is_loopback()).unwrap_or(false)
            }
        }
    }
    pub(crate) fn conn_label(&mut self, base: String) -> String {
        let c = self.conn_count_by_label.entry(base.clone()).or_insert(0);
        *c += 1;
        format!("{}#{}", base, *c)
    }
}

/// Start the world. Must be called inside the runtime (the harness does it in `boot()`).
pub fn start(cfg: Config) {
    clock::mark_runtime_start();
    let seed = cfg.seed;
    let w = World {
        cfg,
        seq: 0,
        heap: BinaryHeap::new(),
        parked: Vec::new(),
        conns: HashMap::new(),
        listeners: BTreeMap::new(),
        udp: BTreeMap::new(),
        next_id: 0,
        next_port: 40000,
        stalled: HashSet::new(),
        unreachable: HashSet::new(),
        muted: HashSet::new(),
        accept_errors: Vec::new(),
        dns: HashMap::new(),
        files: HashMap::new(),
        events: Vec::new(),
        log_hash: 0xcbf2_9ce4_8422_2325,
        shape_hash: 0xcbf2_9ce4_8422_2325,
        keep_events: true,
        sched_rng: Rng::derive(seed, "sched"),
        conn_count_by_label: HashMap::new(),
        cmd_handler: None,
        signal_tx: Vec::new(),
        driver_notify: Arc::new(real_tokio::sync::Notify::new()),
        change_notify: Arc::new(real_tokio::sync::Notify::new()),
        counters: BTreeMap::new(),
        harness_error: None,
        proxy_listeners: Vec::new(),
    };
    *WORLD.lock().unwrap() = Some(w);
    real_tokio::spawn(driver());
}

async fn driver() {
    loop {
        let (next, notify) = process_due();
        match next {
            Some(t) => {
                let deadline = clock::instant_at(t);
                real_tokio::select! {
                    biased;
                    _ = real_tokio::time::sleep_until(deadline) => {}
                    _ = notify.notified() => {}
                }
            }
            None => notify.notified().await,
        }
    }
}

/// Process every queued event that is due; returns the time of the next one.
fn process_due() -> (Option<u64>, Arc<real_tokio::sync::Notify>) {
    let mut wakers: Vec<Waker> = Vec::new();
    let mut w = world();
    let now = now_us();
    loop {
        match w.heap.peek() {
            Some(t) if t.t <= now => {}
            _ => break,
        }
        let Timed { t, seq, ev } = w.heap.pop().unwrap();
        match ev {
            Ev::TcpDeliver { conn, dir } => {
                if tcp::is_stalled(&w, conn) {
                    w.parked.push(Timed { t, seq, ev: Ev::TcpDeliver { conn, dir } });
                } else {
                    tcp::deliver(&mut w, conn, dir, &mut wakers);
                }
            }
            Ev::UdpDeliver { dgram } => udp::deliver(&mut w, dgram, &mut wakers),
            Ev::Wake(wk) => wakers.push(wk),
        }
    }
    let next = w.heap.peek().map(|t| t.t);
    let n = w.driver_notify.clone();
    drop(w);
    for wk in wakers {
        wk.wake();
    }
    (next, n)
}

// ---------------------------------------------------------------------------------------
// Harness-facing controls

pub fn take_events() -> Vec<Event> {
    with(|w| std::mem::take(&mut w.events))
}
pub fn log_hash() -> u64 {
    with(|w| w.log_hash)
}
pub fn shape_hash() -> u64 {
    with(|w| w.shape_hash)
}
pub fn set_keep_events(on: bool) {
    with(|w| w.keep_events = on)
}
pub fn log_event(kind: &'static str, id: u64, n: u64, s: String) -> u64 {
    with(|w| w.log(kind, id, n, s))
}
pub fn stamp() -> u64 {
    with(|w| w.stamp())
}
pub fn set_dns(name: &str, ans: DnsAnswer) {
    with(|w| {
        w.dns.insert(name.to_ascii_lowercase(), ans);
    })
}
pub fn set_file(path: &str, data: Vec<u8>) {
    with(|w| {
        w.files.insert(PathBuf::from(path), data);
    })
}
pub fn get_file(path: &str) -> Option<Vec<u8>> {
    with(|w| w.files.get(&PathBuf::from(path)).cloned())
}
pub fn set_cmd_handler(f: Box<dyn Fn(&[String]) -> CmdOutcome + Send>) {
    with(|w| w.cmd_handler = Some(f))
}
pub fn raise_signal(sig: i32) {
    with(|w| {
        w.log("signal", sig as u64, 0, String::new());
        for (s, tx) in w.signal_tx.iter() {
            if *s == sig {
                let _ = tx.send(());
            }
        }
    })
}
/// Black-hole a host: nothing is delivered to or from it until healed.
pub fn set_stalled(ip: IpAddr, stalled: bool) {
    let mut w = world();
    w.log(if stalled { "host_stall" } else { "host_heal" }, 0, 0, ip.to_string());
    if stalled {
        w.stalled.insert(ip);
    } else {
        w.stalled.remove(&ip);
        let parked = std::mem::take(&mut w.parked);
        let now = now_us();
        for mut p in parked {
            p.t = now;
            w.heap.push(p);
        }
        w.driver_notify.notify_one();
    }
    w.change_notify.notify_waiters();
}
/// One-way blackhole: datagrams addressed to `ip` are dropped, what it sends still arrives.
pub fn set_muted(ip: IpAddr, on: bool) {
    let mut w = world();
    w.log(if on { "host_mute" } else { "host_unmute" }, 0, 0, ip.to_string());
    if on {
        w.muted.insert(ip);
    } else {
        w.muted.remove(&ip);
    }
}

/// The next accept() on the proxy's TCP listener with this port fails with `errno`.
pub fn inject_accept_error(port: u16, errno: i32) {
    let wakers: Vec<Waker> = {
        let mut w = world();
        w.log("accept_error", 0, errno as u64, port.to_string());
        w.count("accept_error_injected");
        w.accept_errors.push((port, errno));
        w.listeners.values_mut().filter(|l| l.addr.port() == port).filter_map(|l| l.waker.take()).collect()
    };
    for wk in wakers {
        wk.wake();
    }
}

/// Wall-clock jump (CLOCK_REALTIME only).
pub fn step_wall_clock(delta_ms: i64) {
    {
        let mut w = world();
        w.log("clock_step", 0, 0, delta_ms.to_string());
        w.count("clock_step");
    }
    clock::step_wall_clock(delta_ms);
}

pub fn set_unreachable(ip: IpAddr, on: bool) {
    let mut w = world();
    if on {
        w.unreachable.insert(ip);
    } else {
        w.unreachable.remove(&ip);
    }
    w.change_notify.notify_waiters();
}
/// Reset every TCP connection that has an endpoint on `ip` (host crash).
pub fn reset_conns_of(ip: IpAddr) -> usize {
    let mut wakers = Vec::new();
    let n = {
        let mut w = world();
        let ids: Vec<u64> = w
            .conns
            .iter()
            .filter(|(_, c)| c.addr[0].ip() == ip || c.addr[1].ip() == ip)
            .map(|(id, _)| *id)
            .collect();
        let mut ids = ids;
        ids.sort();
        for id in ids.iter() {
            tcp::do_reset(&mut w, *id, &mut wakers, "host");
        }
        ids.len()
    };
    for wk in wakers {
        wk.wake();
    }
    n
}
pub fn counters() -> BTreeMap<&'static str, u64> {
    with(|w| w.counters.clone())
}
pub fn count(k: &'static str) {
    with(|w| w.count(k))
}
pub fn harness_error() -> Option<String> {
    with(|w| w.harness_error.clone())
}
pub fn proxy_listeners() -> Vec<SocketAddr> {
    with(|w| w.proxy_listeners.clone())
}
pub fn live_conns() -> Vec<SimTcpInfo> {
    with(|w| {
        let mut v: Vec<SimTcpInfo> = w.conns.values().map(|c| c.info()).collect();
        v.sort_by_key(|c| c.id);
        v
    })
}

pub(crate) fn io_err(kind: io::ErrorKind, msg: &str) -> io::Error {
    io::Error::new(kind, msg.to_string())
}

pub(crate) fn us(d: u64) -> Duration {
    Duration::from_micros(d)
}

pub fn unspecified_like(a: &SocketAddr) -> IpAddr {
    if a.is_ipv4() {
        IpAddr::V4(Ipv4Addr::UNSPECIFIED)
    } else {
        IpAddr::V6(Ipv6Addr::UNSPECIFIED)
    }
}
