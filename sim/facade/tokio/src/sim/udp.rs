//! In-memory UDP: datagram queues with delay, optional reordering, loss and duplication,
//! and an injectable asynchronous socket error.

use super::*;
use std::task::{Context, Poll};

#[derive(Clone, Debug)]
pub(crate) struct Dgram {
    pub from: SocketAddr,
    pub to: SocketAddr,
    pub data: Vec<u8>,
    pub sender_sock: u64,
}

pub(crate) struct UdpState {
    pub id: u64,
    pub local: SocketAddr,
    pub connected: Option<SocketAddr>,
    pub queue: VecDeque<Dgram>,
    pub wakers: Vec<Waker>,
    pub err: Option<i32>,
    pub proxy: bool,
    pub closed: bool,
    pub rng: Rng,
    pub last_due: u64,
    pub bound_seq: u64,
    pub reuse: bool,
}

pub(crate) type UdpRef = Arc<Mutex<UdpState>>;

fn ip_matches(w: &World, s: &UdpState, dst: &SocketAddr) -> bool {
    if s.local.port() != dst.port() {
        return false;
    }
    let lip = s.local.ip();
    if lip == dst.ip() {
        return true;
    }
    if lip.is_unspecified() {
        let owner_ok = if s.proxy { w.is_proxy_ip(&dst.ip()) } else { false };
        if !owner_ok {
            return false;
        }
        return match (lip, dst.ip()) {
            (IpAddr::V4(_), IpAddr::V4(_)) => true,
            (IpAddr::V6(_), _) => true, // dual stack
            _ => false,
        };
    }
    // a socket bound to a loopback alias of the proxy
    false
}

fn lookup(w: &World, d: &Dgram) -> Option<UdpRef> {
    let mut best: Option<(u32, u64, UdpRef)> = None;
    for (_, s) in w.udp.iter() {
        let g = s.lock().unwrap();
        if g.closed || !ip_matches(w, &g, &d.to) {
            continue;
        }
        let mut score = 1u32;
        if let Some(peer) = g.connected {
            if same_endpoint(&peer, &d.from) {
                score += 4;
            } else {
                continue;
            }
        }
        if !g.local.ip().is_unspecified() {
            score += 2;
        }
        let key = (score, g.bound_seq);
        match &best {
            Some((bs, bq, _)) if (*bs, *bq) >= key => {}
            _ => best = Some((score, g.bound_seq, s.clone())),
        }
    }
    best.map(|b| b.2)
}

fn same_endpoint(a: &SocketAddr, b: &SocketAddr) -> bool {
    if a.port() != b.port() {
        return false;
    }
    canon_ip(a.ip()) == canon_ip(b.ip())
}

fn canon_ip(ip: IpAddr) -> IpAddr {
    match ip {
        IpAddr::V6(a) => match a.to_ipv4_mapped() {
            Some(v4) => IpAddr::V4(v4),
            None => ip,
        },
        _ => ip,
    }
}

pub(crate) fn deliver(w: &mut World, d: Dgram, wakers: &mut Vec<Waker>) {
    if w.stalled.contains(&canon_ip(d.to.ip())) || w.stalled.contains(&canon_ip(d.from.ip())) || w.muted.contains(&canon_ip(d.to.ip())) {
        w.log("udp_blackholed", d.sender_sock, d.data.len() as u64, d.to.to_string());
        w.count("udp_blackholed");
        return;
    }
    match lookup(w, &d) {
        Some(s) => {
            let mut g = s.lock().unwrap();
            let id = g.id;
            // a dual-stack socket sees IPv4 peers as v4-mapped
            let mut d = d;
            if g.local.is_ipv6() {
                if let IpAddr::V4(a) = d.from.ip() {
                    d.from = SocketAddr::new(IpAddr::V6(a.to_ipv6_mapped()), d.from.port());
                }
            }
            let n = d.data.len() as u64;
            g.queue.push_back(d);
            wakers.append(&mut g.wakers);
            drop(g);
            w.log("udp_arrive", id, n, String::new());
        }
        None => {
            w.log("udp_noport", d.sender_sock, d.data.len() as u64, d.to.to_string());
            w.count("udp_noport");
            if w.cfg.udp_icmp {
                if let Some(s) = w.udp.get(&d.sender_sock).cloned() {
                    let mut g = s.lock().unwrap();
                    if g.connected.is_some() {
                        g.err = Some(libc::ECONNREFUSED);
                        wakers.append(&mut g.wakers);
                    }
                }
            }
        }
    }
}

pub(crate) fn bind(addr: SocketAddr, proxy: bool, connected: Option<SocketAddr>) -> io::Result<UdpRef> {
    bind_opt(addr, proxy, connected, false)
}

pub(crate) fn bind_opt(addr: SocketAddr, proxy: bool, connected: Option<SocketAddr>, reuse: bool) -> io::Result<UdpRef> {
    let mut w = world();
    let mut addr = addr;
    if addr.port() == 0 {
        // Linux chooses the port of a UDP socket among those without a conflicting holder - and two sockets that both have
        // SO_REUSEADDR do not conflict (udp_lib_lport_inuse): the automatic choice can land on a port another such socket
        // of this host holds. How often is a matter of load; here it is a seeded event (plan parameter udp_port_reuse).
        let mut taken = None;
        let p = w.cfg.udp_port_reuse;
        if reuse && p > 0 && w.sched_rng.chance(p) {
            let mut cands: Vec<(u64, u16)> = Vec::new();
            for (_, s) in w.udp.iter() {
                let g = s.lock().unwrap();
                if g.proxy == proxy && g.reuse && !g.closed && g.local.is_ipv4() == addr.is_ipv4() && g.local.port() >= 32768 {   // (the ephemeral range)
                    cands.push((g.bound_seq, g.local.port()));
                }
            }
            cands.sort();
            if !cands.is_empty() {
                let k = w.sched_rng.below(cands.len() as u64) as usize;
                taken = Some(cands[k].1);
                w.count("udp_port_shared");
            }
        }
        addr.set_port(match taken {
            Some(p) => p,
            None => w.fresh_port(),
        });
    }
    let id = w.fresh_id();
    let seed = w.cfg.seed;
    let label = w.conn_label(format!("udp:{}", addr));
    let bound_seq = w.stamp();
    let st = Arc::new(Mutex::new(UdpState {
        id,
        local: addr,
        connected,
        queue: VecDeque::new(),
        wakers: Vec::new(),
        err: None,
        proxy,
        closed: false,
        rng: Rng::derive(seed, &label),
        last_due: 0,
        bound_seq,
        reuse,
    }));
    w.udp.insert(id, st.clone());
    w.log("udp_bind", id, 0, format!("{}{} c={:?}", if proxy { "proxy " } else { "" }, addr, connected));
    Ok(st)
}

/// Harness: bind a UDP socket at an explicit (non-wildcard) address.
pub fn udp_bind_at(addr: SocketAddr) -> io::Result<crate::net::UdpSocket> {
    Ok(crate::net::UdpSocket::from_state(bind(addr, false, None)?))
}

/// Make the next receive on the proxy's UDP socket with the given local port fail with
/// `errno` (the ICMP port-unreachable analogue). Returns how many sockets were hit.
pub fn udp_inject_error(local_port: u16, only_connected: bool, errno: i32) -> usize {
    let mut wakers = Vec::new();
    let mut n = 0;
    {
        let mut w = world();
        let socks: Vec<UdpRef> = w.udp.values().cloned().collect();
        for s in socks {
            let mut g = s.lock().unwrap();
            if g.proxy && !g.closed && (local_port == 0 || g.local.port() == local_port) && (!only_connected || g.connected.is_some()) {
                g.err = Some(errno);
                wakers.append(&mut g.wakers);
                n += 1;
                let id = g.id;
                drop(g);
                w.log("udp_inject_error", id, errno as u64, String::new());
            }
        }
        w.count_n("udp_error_injected", n as u64);
    }
    for wk in wakers {
        wk.wake();
    }
    n
}

pub(crate) fn source_for(w: &World, s: &UdpState, dst: &SocketAddr) -> SocketAddr {
    let lip = s.local.ip();
    if !lip.is_unspecified() {
        return s.local;
    }
    let ip = if s.proxy {
        match canon_ip(dst.ip()) {
            IpAddr::V4(a) if a.is_loopback() => IpAddr::V4(Ipv4Addr::LOCALHOST),
            IpAddr::V4(_) => IpAddr::V4(w.cfg.proxy_v4),
            IpAddr::V6(a) if a.is_loopback() => IpAddr::V6(Ipv6Addr::LOCALHOST),
            IpAddr::V6(_) => IpAddr::V6(w.cfg.proxy_v6),
        }
    } else {
        lip
    };
    SocketAddr::new(ip, s.local.port())
}

pub(crate) fn send(s: &UdpRef, data: &[u8], dst: Option<SocketAddr>) -> io::Result<usize> {
    let mut w = world();
    let now = now_us();
    let chaos = w.cfg.chaos.clone();
    let mut g = s.lock().unwrap();
    if let Some(e) = g.err.take() {
        return Err(io::Error::from_raw_os_error(e));
    }
    let dst = match dst.or(g.connected) {
        Some(d) => d,
        None => return Err(io::Error::from_raw_os_error(libc::EDESTADDRREQ)),
    };
    if data.len() > 65507 {
        return Err(io::Error::from_raw_os_error(libc::EMSGSIZE));
    }
    let dst_c = SocketAddr::new(canon_ip(dst.ip()), dst.port());
    // an AF_INET socket cannot send to an IPv6 destination (a dual-stack AF_INET6 socket can send to IPv4)
    if g.local.is_ipv4() && dst_c.is_ipv6() {
        return Err(io::Error::from_raw_os_error(libc::EAFNOSUPPORT));
    }
    let from = source_for(&w, &g, &dst_c);
    let id = g.id;
    let lost = chaos.udp_loss > 0 && g.rng.chance(chaos.udp_loss);
    let dup = chaos.udp_dup > 0 && g.rng.chance(chaos.udp_dup);
    let mut delays = Vec::new();
    for _ in 0..(1 + dup as usize) {
        let d = if chaos.delay_max_us > 0 { g.rng.range(chaos.delay_min_us, chaos.delay_max_us) } else { 0 };
        let due = if chaos.udp_reorder {
            now + d
        } else {
            let due = (now + d).max(g.last_due);
            g.last_due = due;
            due
        };
        delays.push(due);
    }
    drop(g);
    w.log("udp_send", id, data.len() as u64, format!("{}>{}", from, dst_c));
    if lost {
        w.log("udp_lost", id, data.len() as u64, String::new());
        w.count("udp_lost");
        return Ok(data.len());
    }
    if dup {
        w.count("udp_dup");
    }
    for due in delays {
        w.schedule(
            due,
            Ev::UdpDeliver {
                dgram: Dgram {
                    from,
                    to: dst_c,
                    data: data.to_vec(),
                    sender_sock: id,
                },
            },
        );
    }
    Ok(data.len())
}

pub(crate) fn poll_recv(s: &UdpRef, cx: &mut Context<'_>) -> Poll<io::Result<(Vec<u8>, SocketAddr, SocketAddr)>> {
    let mut g = s.lock().unwrap();
    if let Some(e) = g.err.take() {
        return Poll::Ready(Err(io::Error::from_raw_os_error(e)));
    }
    if let Some(d) = g.queue.pop_front() {
        let id = g.id;
        drop(g);
        world().log("udp_recv", id, d.data.len() as u64, String::new());
        return Poll::Ready(Ok((d.data, d.from, d.to)));
    }
    if g.closed {
        return Poll::Ready(Err(io_err(io::ErrorKind::NotConnected, "sim: socket closed")));
    }
    let wk = cx.waker();
    if !g.wakers.iter().any(|w| w.will_wake(wk)) {
        g.wakers.push(wk.clone());
    }
    Poll::Pending
}

pub(crate) fn close(s: &UdpRef) {
    let id = {
        let mut g = s.lock().unwrap();
        g.closed = true;
        g.queue.clear();
        g.id
    };
    let mut w = world();
    w.udp.remove(&id);
    w.log("udp_close", id, 0, String::new());
}
