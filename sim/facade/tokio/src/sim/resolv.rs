//! `getaddrinfo` / `freeaddrinfo` interposition: std's blocking `to_socket_addrs()` (used by
//! the QUIC connector) answers from the simulation's DNS table instead of the real resolver.

use super::{with, DnsAnswer};
use std::ffi::CStr;
use std::net::IpAddr;

unsafe fn make_node(ip: IpAddr, port: u16, socktype: i32) -> *mut libc::addrinfo {
    let ai = libc::calloc(1, std::mem::size_of::<libc::addrinfo>()) as *mut libc::addrinfo;
    match ip {
        IpAddr::V4(a) => {
            let sa = libc::calloc(1, std::mem::size_of::<libc::sockaddr_in>()) as *mut libc::sockaddr_in;
            (*sa).sin_family = libc::AF_INET as u16;
            (*sa).sin_port = port.to_be();
            (*sa).sin_addr.s_addr = u32::from(a).to_be();
            (*ai).ai_family = libc::AF_INET;
            (*ai).ai_addrlen = std::mem::size_of::<libc::sockaddr_in>() as u32;
            (*ai).ai_addr = sa as *mut libc::sockaddr;
        }
        IpAddr::V6(a) => {
            let sa = libc::calloc(1, std::mem::size_of::<libc::sockaddr_in6>()) as *mut libc::sockaddr_in6;
            (*sa).sin6_family = libc::AF_INET6 as u16;
            (*sa).sin6_port = port.to_be();
            (*sa).sin6_addr.s6_addr = a.octets();
            (*ai).ai_family = libc::AF_INET6;
            (*ai).ai_addrlen = std::mem::size_of::<libc::sockaddr_in6>() as u32;
            (*ai).ai_addr = sa as *mut libc::sockaddr;
        }
    }
    (*ai).ai_socktype = if socktype == 0 { libc::SOCK_STREAM } else { socktype };
    ai
}

/// # Safety
/// C ABI replacement of getaddrinfo(3)
#[no_mangle]
pub unsafe extern "C" fn getaddrinfo(
    node: *const libc::c_char,
    service: *const libc::c_char,
    hints: *const libc::addrinfo,
    res: *mut *mut libc::addrinfo,
) -> libc::c_int {
    if node.is_null() || res.is_null() {
        return libc::EAI_NONAME;
    }
    let name = CStr::from_ptr(node).to_string_lossy().to_string();
    let port: u16 = if service.is_null() { 0 } else { CStr::from_ptr(service).to_string_lossy().parse().unwrap_or(0) };
    let socktype = if hints.is_null() { 0 } else { (*hints).ai_socktype };
    let ips: Vec<IpAddr> = if let Ok(ip) = name.parse::<IpAddr>() {
        vec![ip]
    } else if !super::is_started() {
        Vec::new()
    } else {
        with(|w| {
            w.log("dns", 2, port as u64, name.clone());
            w.count("dns_lookup");
            match w.dns.get(&name.to_ascii_lowercase()) {
                Some(DnsAnswer::Addrs(v)) => v.clone(),
                Some(DnsAnswer::Delayed(_, v)) => v.clone(),
                _ => Vec::new(),
            }
        })
    };
    if ips.is_empty() {
        return libc::EAI_NONAME;
    }
    let mut head: *mut libc::addrinfo = std::ptr::null_mut();
    let mut tail: *mut libc::addrinfo = std::ptr::null_mut();
    for ip in ips {
        let n = make_node(ip, port, socktype);
        if head.is_null() {
            head = n;
        } else {
            (*tail).ai_next = n;
        }
        tail = n;
    }
    *res = head;
    0
}

/// # Safety
/// C ABI replacement of freeaddrinfo(3)
#[no_mangle]
pub unsafe extern "C" fn freeaddrinfo(mut ai: *mut libc::addrinfo) {
    while !ai.is_null() {
        let next = (*ai).ai_next;
        if !(*ai).ai_addr.is_null() {
            libc::free((*ai).ai_addr as *mut libc::c_void);
        }
        libc::free(ai as *mut libc::c_void);
        ai = next;
    }
}

pub fn keep_symbols() -> usize {
    (getaddrinfo as *const () as usize) ^ (freeaddrinfo as *const () as usize)
}
