//! One clock and one entropy source for the whole process.
//!
//! `clock_gettime`, `getrandom` and `syscall(SYS_getrandom)` are defined here with C
//! linkage; the static linker binds std's, ring's and the getrandom crate's references
//! to these definitions, so `Instant::now()`, `SystemTime::now()`, `RandomState::new()`
//! and `thread_rng()` all follow the simulation.

use std::cell::Cell;
use std::sync::atomic::{AtomicBool, AtomicU64, Ordering};
use std::sync::OnceLock;

/// CLOCK_MONOTONIC at simulation start (seconds)
pub const MONO_BASE_S: i64 = 100_000;
/// CLOCK_REALTIME at simulation start: 2030-01-01T00:00:00Z
pub const REAL_BASE_S: i64 = 1_893_456_000;

static STARTED: AtomicBool = AtomicBool::new(false);
/// wall-clock jumps (an operator or NTP stepping the clock): added to CLOCK_REALTIME only, the monotonic clock and
/// the scheduler's timers are unaffected, exactly as on a real host
static WALL_OFFSET_MS: std::sync::atomic::AtomicI64 = std::sync::atomic::AtomicI64::new(0);

/// Step the wall clock by `delta_ms` (negative = backwards).
pub fn step_wall_clock(delta_ms: i64) {
    WALL_OFFSET_MS.fetch_add(delta_ms, Ordering::SeqCst);
}
static LAST_NS: AtomicU64 = AtomicU64::new(0);
static T0: OnceLock<real_tokio::time::Instant> = OnceLock::new();

thread_local! {
    static IN_HOOK: Cell<bool> = const { Cell::new(false) };
    static SIM_THREAD: Cell<bool> = const { Cell::new(false) };
}

pub(crate) fn mark_runtime_start() {
    SIM_THREAD.with(|c| c.set(true));
    let _ = T0.set(real_tokio::time::Instant::now());
    STARTED.store(true, Ordering::SeqCst);
}

pub(crate) fn instant_at(t_us: u64) -> real_tokio::time::Instant {
    *T0.get().expect("sim not started") + std::time::Duration::from_micros(t_us)
}

fn elapsed_ns() -> u64 {
    if !STARTED.load(Ordering::Relaxed) {
        return 0;
    }
    let on_sim = SIM_THREAD.try_with(|c| c.get()).unwrap_or(false);
    if !on_sim {
        return LAST_NS.load(Ordering::Relaxed);
    }
    let reentered = IN_HOOK.try_with(|c| c.replace(true)).unwrap_or(true);
    if reentered {
        return LAST_NS.load(Ordering::Relaxed);
    }
    let t0 = *T0.get().unwrap();
    let now = real_tokio::time::Instant::now();
    let d = now.saturating_duration_since(t0).as_nanos() as u64;
    let prev = LAST_NS.load(Ordering::Relaxed);
    let d = d.max(prev);
    LAST_NS.store(d, Ordering::Relaxed);
    let _ = IN_HOOK.try_with(|c| c.set(false));
    d
}

pub fn elapsed_us() -> u64 {
    elapsed_ns() / 1000
}

#[inline(never)]
unsafe fn raw_syscall6(n: i64, a1: i64, a2: i64, a3: i64, a4: i64, a5: i64, a6: i64) -> i64 {
    let ret: i64;
    core::arch::asm!(
        "syscall",
        inlateout("rax") n => ret,
        in("rdi") a1, in("rsi") a2, in("rdx") a3, in("r10") a4, in("r8") a5, in("r9") a6,
        lateout("rcx") _, lateout("r11") _,
        options(nostack)
    );
    ret
}

/// # Safety
/// C ABI replacement of clock_gettime(2)
#[no_mangle]
pub unsafe extern "C" fn clock_gettime(clk: libc::clockid_t, ts: *mut libc::timespec) -> libc::c_int {
    let base = match clk {
        libc::CLOCK_REALTIME | libc::CLOCK_REALTIME_COARSE | libc::CLOCK_TAI => REAL_BASE_S,
        libc::CLOCK_MONOTONIC
        | libc::CLOCK_MONOTONIC_RAW
        | libc::CLOCK_MONOTONIC_COARSE
        | libc::CLOCK_BOOTTIME => MONO_BASE_S,
        _ => {
            let r = raw_syscall6(libc::SYS_clock_gettime, clk as i64, ts as i64, 0, 0, 0, 0);
            if r < 0 {
                *libc::__errno_location() = (-r) as i32;
                return -1;
            }
            return 0;
        }
    };
    let ns = elapsed_ns();
    if !ts.is_null() {
        let mut total = base as i128 * 1_000_000_000 + ns as i128;
        if base == REAL_BASE_S {
            total += WALL_OFFSET_MS.load(Ordering::Relaxed) as i128 * 1_000_000;
        }
        (*ts).tv_sec = (total / 1_000_000_000) as i64;
        (*ts).tv_nsec = (total % 1_000_000_000) as i64;
    }
    0
}

// ---------------------------------------------------------------------------------------
// blocking sleeps
//
// A sleeping system call on the runtime's thread (std::thread::sleep) stops every task of that worker for its length.
// On the simulation thread it is not executed: its length is accounted (the harness reports it and the oracles judge
// it) and the call returns at once, so that runs stay fast and repeatable. Other threads (watchdog) really sleep.

static BLOCKED_NS: AtomicU64 = AtomicU64::new(0);
static BLOCKED_MAX_NS: AtomicU64 = AtomicU64::new(0);
static BLOCKED_CALLS: AtomicU64 = AtomicU64::new(0);

/// (calls, total microseconds, longest single call in microseconds) of blocking sleeps on the simulation thread
pub fn blocked_sleeps() -> (u64, u64, u64) {
    (BLOCKED_CALLS.load(Ordering::Relaxed), BLOCKED_NS.load(Ordering::Relaxed) / 1000, BLOCKED_MAX_NS.load(Ordering::Relaxed) / 1000)
}

fn on_sim_thread() -> bool {
    STARTED.load(Ordering::Relaxed) && SIM_THREAD.try_with(|c| c.get()).unwrap_or(false)
}

fn account_block(ns: u64) {
    BLOCKED_CALLS.fetch_add(1, Ordering::Relaxed);
    BLOCKED_NS.fetch_add(ns, Ordering::Relaxed);
    BLOCKED_MAX_NS.fetch_max(ns, Ordering::Relaxed);
}

unsafe fn ts_ns(ts: *const libc::timespec) -> i128 {
    if ts.is_null() {
        0
    } else {
        (*ts).tv_sec as i128 * 1_000_000_000 + (*ts).tv_nsec as i128
    }
}

#[no_mangle]
pub unsafe extern "C" fn nanosleep(req: *const libc::timespec, rem: *mut libc::timespec) -> libc::c_int {
    if on_sim_thread() {
        account_block(ts_ns(req).max(0) as u64);
        return 0;
    }
    let r = raw_syscall6(libc::SYS_nanosleep, req as i64, rem as i64, 0, 0, 0, 0);
    if r < 0 {
        *libc::__errno_location() = (-r) as i32;
        return -1;
    }
    0
}

#[no_mangle]
pub unsafe extern "C" fn clock_nanosleep(clk: libc::clockid_t, flags: libc::c_int, req: *const libc::timespec, rem: *mut libc::timespec) -> libc::c_int {
    if on_sim_thread() {
        let mut d = ts_ns(req);
        if flags & libc::TIMER_ABSTIME != 0 {
            let mut now: libc::timespec = std::mem::zeroed();
            clock_gettime(clk, &mut now);
            d -= ts_ns(&now);
        }
        account_block(d.max(0) as u64);
        return 0;
    }
    // (returns the error number, does not set errno)
    let r = raw_syscall6(libc::SYS_clock_nanosleep, clk as i64, flags as i64, req as i64, rem as i64, 0, 0);
    (-r) as libc::c_int
}

// ---------------------------------------------------------------------------------------
// entropy

static ENTROPY: std::sync::Mutex<Option<super::Rng>> = std::sync::Mutex::new(None);
static ENTROPY_BYTES: AtomicU64 = AtomicU64::new(0);

pub fn env_seed() -> u64 {
    unsafe {
        let p = libc::getenv(c"SIM_SEED".as_ptr());
        if p.is_null() {
            return 0;
        }
        let mut v: u64 = 0;
        let mut q = p;
        while *q != 0 {
            let c = *q as u8;
            if c.is_ascii_digit() {
                v = v.wrapping_mul(10).wrapping_add((c - b'0') as u64);
            }
            q = q.add(1);
        }
        v
    }
}

unsafe fn fill_entropy(buf: *mut u8, len: usize) {
    if buf.is_null() || len == 0 {
        return;
    }
    let mut g = ENTROPY.lock().unwrap_or_else(|e| e.into_inner());
    if g.is_none() {
        *g = Some(super::Rng::derive(env_seed(), "entropy"));
    }
    let r = g.as_mut().unwrap();
    let s = std::slice::from_raw_parts_mut(buf, len);
    r.fill(s);
    ENTROPY_BYTES.fetch_add(len as u64, Ordering::Relaxed);
}

pub fn entropy_bytes_served() -> u64 {
    ENTROPY_BYTES.load(Ordering::Relaxed)
}

/// # Safety
/// C ABI replacement of getrandom(2)
#[no_mangle]
pub unsafe extern "C" fn getrandom(buf: *mut libc::c_void, len: libc::size_t, _flags: libc::c_uint) -> libc::ssize_t {
    fill_entropy(buf as *mut u8, len);
    len as libc::ssize_t
}

/// # Safety
/// C ABI replacement of syscall(2): only SYS_getrandom is intercepted.
#[no_mangle]
pub unsafe extern "C" fn syscall(n: libc::c_long, a1: i64, a2: i64, a3: i64, a4: i64, a5: i64, a6: i64) -> libc::c_long {
    if n == libc::SYS_getrandom {
        fill_entropy(a1 as *mut u8, a2 as usize);
        return a2;
    }
    let r = raw_syscall6(n, a1, a2, a3, a4, a5, a6);
    if (-4095..0).contains(&r) {
        *libc::__errno_location() = (-r) as i32;
        return -1;
    }
    r
}

/// Referenced from the facade's public API so that the object file holding the
/// interposed symbols is always linked.
pub fn keep_symbols() -> usize {
    (clock_gettime as *const () as usize) ^ (getrandom as *const () as usize) ^ (syscall as *const () as usize)
}
