//! In-memory TCP: a connection is two unidirectional byte pipes with finite capacity,
//! per-segment delivery delay, short writes/reads, FIN per direction and RST.

use super::*;
use std::task::{Context, Poll};

pub(crate) enum Seg {
    Data(Vec<u8>),
    Fin,
}

pub(crate) struct Pipe {
    pub buf: VecDeque<u8>,
    pub inflight: VecDeque<Seg>,
    pub inflight_bytes: usize,
    pub cap: usize,
    pub fin_queued: bool,
    pub fin_arrived: bool,
    pub last_due: u64,
    pub rwaker: Option<Waker>,
    pub wwaker: Option<Waker>,
    pub reader_gone: bool,
    pub writer_gone: bool,
    pub written: u64,
    pub read: u64,
    pub eof_seen: bool,
}

impl Pipe {
    fn new(cap: usize) -> Self {
        Pipe {
            buf: VecDeque::new(),
            inflight: VecDeque::new(),
            inflight_bytes: 0,
            cap,
            fin_queued: false,
            fin_arrived: false,
            last_due: 0,
            rwaker: None,
            wwaker: None,
            reader_gone: false,
            writer_gone: false,
            written: 0,
            read: 0,
            eof_seen: false,
        }
    }
}

pub(crate) struct ConnState {
    pub id: u64,
    pub label: String,
    /// addr[0] = connecting side, addr[1] = accepting side
    pub addr: [SocketAddr; 2],
    /// pipes[e] carries what endpoint e writes
    pub pipes: [Pipe; 2],
    pub rst: bool,
    pub rng: Rng,
    pub chaos: Chaos,
    pub ends_alive: u8,
    /// SO_LINGER {on, 0} set on endpoint e: its close() aborts instead of delivering what is queued
    pub linger0: [bool; 2],
}

#[derive(Clone, Debug)]
pub struct SimTcpInfo {
    pub id: u64,
    pub label: String,
    pub addr: [SocketAddr; 2],
    pub rst: bool,
    pub written: [u64; 2],
    pub read: [u64; 2],
    pub fin_queued: [bool; 2],
    pub ends_alive: u8,
}

impl ConnState {
    pub fn info(&self) -> SimTcpInfo {
        SimTcpInfo {
            id: self.id,
            label: self.label.clone(),
            addr: self.addr,
            rst: self.rst,
            written: [self.pipes[0].written, self.pipes[1].written],
            read: [self.pipes[0].read, self.pipes[1].read],
            fin_queued: [self.pipes[0].fin_queued, self.pipes[1].fin_queued],
            ends_alive: self.ends_alive,
        }
    }
}

pub(crate) struct ListenerState {
    pub id: u64,
    pub addr: SocketAddr,
    pub backlog: VecDeque<crate::net::TcpStream>,
    pub waker: Option<Waker>,
    pub proxy: bool,
    pub kernel: bool,
}

pub(crate) fn is_stalled(w: &World, conn: u64) -> bool {
    match w.conns.get(&conn) {
        Some(c) => w.stalled.contains(&c.addr[0].ip()) || w.stalled.contains(&c.addr[1].ip()),
        None => false,
    }
}

pub(crate) fn deliver(w: &mut World, conn: u64, dir: usize, wakers: &mut Vec<Waker>) {
    let mut reset = false;
    let mut logged: Option<(&'static str, u64)> = None;
    if let Some(c) = w.conns.get_mut(&conn) {
        if c.rst {
            return;
        }
        let p = &mut c.pipes[dir];
        match p.inflight.pop_front() {
            Some(Seg::Data(d)) => {
                p.inflight_bytes -= d.len();
                if p.reader_gone {
                    // data arriving at a closed socket: the peer answers with RST
                    reset = true;
                } else {
                    logged = Some(("tcp_arrive", d.len() as u64));
                    p.buf.extend(d);
                    if let Some(wk) = p.rwaker.take() {
                        wakers.push(wk);
                    }
                }
            }
            Some(Seg::Fin) => {
                p.fin_arrived = true;
                logged = Some(("tcp_fin_arrive", 0));
                if let Some(wk) = p.rwaker.take() {
                    wakers.push(wk);
                }
            }
            None => {}
        }
    }
    if let Some((k, n)) = logged {
        w.log(k, conn, n, format!("d{}", dir));
    }
    if reset {
        do_reset(w, conn, wakers, "closed-peer");
    }
}

pub(crate) fn do_reset(w: &mut World, conn: u64, wakers: &mut Vec<Waker>, why: &str) {
    let mut did = false;
    if let Some(c) = w.conns.get_mut(&conn) {
        if !c.rst {
            c.rst = true;
            did = true;
            for p in c.pipes.iter_mut() {
                p.buf.clear();
                p.inflight.clear();
                p.inflight_bytes = 0;
                if let Some(wk) = p.rwaker.take() {
                    wakers.push(wk);
                }
                if let Some(wk) = p.wwaker.take() {
                    wakers.push(wk);
                }
            }
        }
    }
    if did {
        w.log("tcp_rst", conn, 0, why.to_string());
        w.count("tcp_rst");
    }
}

fn draw_delay(c: &mut ConnState) -> u64 {
    let (lo, hi) = (c.chaos.delay_min_us, c.chaos.delay_max_us);
    if hi == 0 {
        0
    } else {
        c.rng.range(lo, hi)
    }
}

/// Handle held by a `TcpStream` for the in-memory backend.
#[derive(Debug)]
pub(crate) struct MemEnd {
    pub conn: u64,
    pub end: usize,
    pub local: SocketAddr,
    pub peer: SocketAddr,
}

impl MemEnd {
    pub fn poll_read(&self, cx: &mut Context<'_>, out: &mut real_tokio::io::ReadBuf<'_>) -> Poll<io::Result<()>> {
        let mut w = world();
        let now = now_us();
        let _ = now;
        let (conn, end) = (self.conn, self.end);
        let c = match w.conns.get_mut(&conn) {
            Some(c) => c,
            None => return Poll::Ready(Err(io_err(io::ErrorKind::NotConnected, "sim: no such connection"))),
        };
        if c.chaos.pending > 0 && c.rng.chance(c.chaos.pending) {
            cx.waker().wake_by_ref();
            w.count("inject_pending_read");
            return Poll::Pending;
        }
        let short = c.chaos.short_read > 0 && c.rng.chance(c.chaos.short_read);
        let pick = c.rng.next_u64();
        let p = &mut c.pipes[1 - end];
        if !p.buf.is_empty() {
            let mut n = p.buf.len().min(out.remaining());
            if n == 0 {
                return Poll::Ready(Ok(()));
            }
            let mut was_short = false;
            if short && n > 1 {
                n = 1 + (pick % (n as u64 - 1)) as usize;
                was_short = true;
            }
            let (a, b) = p.buf.as_slices();
            if n <= a.len() {
                out.put_slice(&a[..n]);
            } else {
                out.put_slice(a);
                out.put_slice(&b[..n - a.len()]);
            }
            p.buf.drain(..n);
            p.read += n as u64;
            let wk = p.wwaker.take();
            w.log("tcp_read", conn, n as u64, format!("e{}", end));
            if was_short {
                w.count("short_read");
            }
            drop(w);
            if let Some(wk) = wk {
                wk.wake();
            }
            return Poll::Ready(Ok(()));
        }
        if c.rst {
            return Poll::Ready(Err(io_err(io::ErrorKind::ConnectionReset, "Connection reset by peer")));
        }
        if p.fin_arrived {
            if !p.eof_seen {
                p.eof_seen = true;
                w.log("tcp_eof", conn, 0, format!("e{}", end));
            }
            return Poll::Ready(Ok(()));
        }
        p.rwaker = Some(cx.waker().clone());
        Poll::Pending
    }

    pub fn poll_write(&self, cx: &mut Context<'_>, data: &[u8]) -> Poll<io::Result<usize>> {
        if data.is_empty() {
            return Poll::Ready(Ok(0));
        }
        let mut w = world();
        let now = now_us();
        let (conn, end) = (self.conn, self.end);
        let c = match w.conns.get_mut(&conn) {
            Some(c) => c,
            None => return Poll::Ready(Err(io_err(io::ErrorKind::NotConnected, "sim: no such connection"))),
        };
        if c.rst {
            return Poll::Ready(Err(io_err(io::ErrorKind::BrokenPipe, "Broken pipe")));
        }
        if c.pipes[end].fin_queued {
            return Poll::Ready(Err(io_err(io::ErrorKind::BrokenPipe, "Broken pipe (write after shutdown)")));
        }
        if c.chaos.pending > 0 && c.rng.chance(c.chaos.pending) {
            cx.waker().wake_by_ref();
            w.count("inject_pending_write");
            return Poll::Pending;
        }
        let short = c.chaos.short_write > 0 && c.rng.chance(c.chaos.short_write);
        let pick = c.rng.next_u64();
        let glue = c.chaos.glue > 0 && c.rng.chance(c.chaos.glue);
        let delay = draw_delay(c);
        let p = &mut c.pipes[end];
        let used = p.buf.len() + p.inflight_bytes;
        if used >= p.cap {
            p.wwaker = Some(cx.waker().clone());
            w.count("backpressure");
            return Poll::Pending;
        }
        let mut n = data.len().min(p.cap - used);
        let mut was_short = n < data.len();
        if short && n > 1 {
            n = 1 + (pick % (n as u64 - 1)) as usize;
            was_short = true;
        }
        p.written += n as u64;
        p.inflight_bytes += n;
        let mut glued = false;
        if glue {
            if let Some(Seg::Data(last)) = p.inflight.back_mut() {
                last.extend_from_slice(&data[..n]);
                glued = true;
            }
        }
        let mut due = 0;
        if !glued {
            due = (now + delay).max(p.last_due);
            p.last_due = due;
            p.inflight.push_back(Seg::Data(data[..n].to_vec()));
        }
        w.log("tcp_write", conn, n as u64, format!("e{}", end));
        if was_short {
            w.count("short_write");
        }
        if glued {
            w.count("glued_write");
        } else {
            w.schedule(due, Ev::TcpDeliver { conn, dir: end });
        }
        Poll::Ready(Ok(n))
    }

    pub fn poll_shutdown(&self, _cx: &mut Context<'_>) -> Poll<io::Result<()>> {
        let mut w = world();
        let now = now_us();
        let (conn, end) = (self.conn, self.end);
        let c = match w.conns.get_mut(&conn) {
            Some(c) => c,
            None => return Poll::Ready(Ok(())),
        };
        if c.rst {
            return Poll::Ready(Err(io_err(io::ErrorKind::NotConnected, "Transport endpoint is not connected")));
        }
        if c.pipes[end].fin_queued {
            return Poll::Ready(Ok(()));
        }
        let delay = draw_delay(c);
        let p = &mut c.pipes[end];
        p.fin_queued = true;
        let due = (now + delay).max(p.last_due);
        p.last_due = due;
        p.inflight.push_back(Seg::Fin);
        w.log("tcp_fin", conn, 0, format!("e{}", end));
        w.schedule(due, Ev::TcpDeliver { conn, dir: end });
        Poll::Ready(Ok(()))
    }

    pub fn close(&self) {
        let mut wakers = Vec::new();
        {
            let mut w = world();
            let now = now_us();
            let (conn, end) = (self.conn, self.end);
            let mut remove = false;
            let mut reset = false;
            let mut fin_due = None;
            if let Some(c) = w.conns.get_mut(&conn) {
                c.ends_alive = c.ends_alive.saturating_sub(1);
                let delay = draw_delay(c);
                let unread = {
                    let rp = &c.pipes[1 - end];
                    !rp.buf.is_empty()
                };
                c.pipes[1 - end].reader_gone = true;
                c.pipes[1 - end].rwaker = None;
                c.pipes[end].writer_gone = true;
                c.pipes[end].wwaker = None;
                // SO_LINGER 0: close() throws away what the peer's stack has not got yet and sends RST, unless both
                // directions have already been closed in an orderly way (tcp_disconnect: no reset from LAST_ACK/CLOSING
                // with nothing left to send, nor from TIME_WAIT)
                let abort = c.linger0[end]
                    && !(c.pipes[end].fin_queued && c.pipes[end].inflight.is_empty() && c.pipes[1 - end].fin_arrived);
                if c.ends_alive == 0 {
                    remove = true;
                } else if !c.rst {
                    if unread || abort {
                        reset = true;
                    } else if !c.pipes[end].fin_queued {
                        let p = &mut c.pipes[end];
                        p.fin_queued = true;
                        let due = (now + delay).max(p.last_due);
                        p.last_due = due;
                        p.inflight.push_back(Seg::Fin);
                        fin_due = Some(due);
                    }
                }
            }
            w.log("tcp_close", conn, 0, format!("e{}", end));
            if reset {
                do_reset(&mut w, conn, &mut wakers, "close-with-unread");
            }
            if let Some(due) = fin_due {
                w.schedule(due, Ev::TcpDeliver { conn, dir: end });
            }
            if remove {
                w.conns.remove(&conn);
            }
        }
        for wk in wakers {
            wk.wake();
        }
    }
}

pub fn set_linger0(conn: u64, end: usize, on: bool) {
    let mut w = world();
    if let Some(c) = w.conns.get_mut(&conn) {
        c.linger0[end] = on;
    }
    w.count("tcp_set_linger");
}

/// Abort the connection behind `s` (harness: SO_LINGER 0 + close)
pub fn tcp_reset(s: &crate::net::TcpStream) {
    if let Some(m) = s.mem_end() {
        let mut wakers = Vec::new();
        {
            let mut w = world();
            do_reset(&mut w, m.conn, &mut wakers, "abort");
        }
        for wk in wakers {
            wk.wake();
        }
    }
}

/// Abort a connection by simulation id.
pub fn tcp_reset_id(conn: u64) {
    let mut wakers = Vec::new();
    {
        let mut w = world();
        do_reset(&mut w, conn, &mut wakers, "abort");
    }
    for wk in wakers {
        wk.wake();
    }
}

fn find_listener(w: &World, dst: &SocketAddr) -> Option<SocketAddr> {
    if w.listeners.contains_key(dst) {
        return Some(*dst);
    }
    // wildcard listeners of the proxy
    if w.is_proxy_ip(&dst.ip()) {
        let v6any = SocketAddr::new(IpAddr::V6(Ipv6Addr::UNSPECIFIED), dst.port());
        let v4any = SocketAddr::new(IpAddr::V4(Ipv4Addr::UNSPECIFIED), dst.port());
        let is_v4 = match dst.ip() {
            IpAddr::V4(_) => true,
            IpAddr::V6(a) => a.to_ipv4_mapped().is_some(),
        };
        if is_v4 && w.listeners.get(&v4any).map(|l| l.proxy).unwrap_or(false) {
            return Some(v4any);
        }
        if w.listeners.get(&v6any).map(|l| l.proxy).unwrap_or(false) {
            return Some(v6any);
        }
        // loopback aliases of explicit proxy binds
        for (a, l) in w.listeners.iter() {
            if l.proxy && a.port() == dst.port() && w.is_proxy_ip(&a.ip()) && a.ip().is_loopback() == dst.ip().is_loopback() && a.is_ipv4() == dst.is_ipv4() {
                return Some(*a);
            }
        }
    }
    None
}

pub(crate) struct ConnectSpec {
    pub proxy: bool,
    pub bind: Option<SocketAddr>,
    pub src_ip: Option<IpAddr>,
    pub dst: SocketAddr,
    pub label: Option<String>,
    pub chaos: Option<Chaos>,
    /// netfilter TPROXY: the client addresses `dst`, the connection is handed to the (proxy)
    /// listener at this address, which sees `dst` as its local address / original destination
    pub divert: Option<SocketAddr>,
}

pub(crate) async fn connect(spec: ConnectSpec) -> io::Result<crate::net::TcpStream> {
    // an AF_INET6 socket connecting to ::ffff:a.b.c.d talks IPv4 to a.b.c.d (Linux, not V6ONLY)
    let mut spec = spec;
    if let SocketAddr::V6(a) = spec.dst {
        if let Some(v4) = a.ip().to_ipv4_mapped() {
            spec.dst = SocketAddr::new(IpAddr::V4(v4), a.port());
        }
    }
    let orig = spec.dst;
    let dst = spec.divert.unwrap_or(spec.dst);
    let start = {
        let mut w = world();
        w.log("tcp_connect", 0, 0, format!("{}>{}", if spec.proxy { "proxy" } else { "harness" }, dst))
    };
    let _ = start;
    // one round trip worth of delay
    let (delay, notify) = {
        let mut w = world();
        let d = if w.cfg.chaos.delay_max_us > 0 {
            let (lo, hi) = (w.cfg.chaos.delay_min_us, w.cfg.chaos.delay_max_us);
            w.sched_rng.range(lo, hi)
        } else {
            0
        };
        (d, w.change_notify.clone())
    };
    if delay > 0 {
        real_tokio::time::sleep(us(delay)).await;
    }
    let deadline = real_tokio::time::Instant::now() + Duration::from_secs(127);
    loop {
        let notified = notify.notified();
        {
            let w = world();
            if w.unreachable.contains(&dst.ip()) {
                drop(w);
                world().log("tcp_unreachable", 0, 0, dst.to_string());
                return Err(io::Error::from_raw_os_error(libc::EHOSTUNREACH));
            }
            if !w.stalled.contains(&dst.ip()) {
                break;
            }
        }
        real_tokio::select! {
            _ = notified => {}
            _ = real_tokio::time::sleep_until(deadline) => {
                world().log("tcp_connect_timeout", 0, 0, dst.to_string());
                return Err(io::Error::from_raw_os_error(libc::ETIMEDOUT));
            }
        }
    }
    let mut w = world();
    let laddr = match find_listener(&w, &dst) {
        Some(a) => a,
        None => {
            w.log("tcp_refused", 0, 0, dst.to_string());
            w.count("tcp_refused");
            return Err(io::Error::from_raw_os_error(libc::ECONNREFUSED));
        }
    };
    let kernel = w.listeners.get(&laddr).map(|l| l.kernel).unwrap_or(false) || w.cfg.backend == Backend::Kernel;
    let src_ip = match (spec.bind, spec.src_ip) {
        (Some(b), _) if !b.ip().is_unspecified() => b.ip(),
        (_, Some(ip)) => ip,
        _ => {
            // (a loopback destination is reached from the loopback address, as for UDP: udp::source_for)
            match dst.ip() {
                IpAddr::V4(a) if a.is_loopback() => IpAddr::V4(Ipv4Addr::LOCALHOST),
                IpAddr::V4(_) => IpAddr::V4(w.cfg.proxy_v4),
                IpAddr::V6(a) if a.is_loopback() => IpAddr::V6(Ipv6Addr::LOCALHOST),
                IpAddr::V6(a) if a.to_ipv4_mapped().map(|m| m.is_loopback()).unwrap_or(false) => IpAddr::V4(Ipv4Addr::LOCALHOST),
                IpAddr::V6(_) => IpAddr::V6(w.cfg.proxy_v6),
            }
        }
    };
    let src_port = match spec.bind {
        Some(b) if b.port() != 0 => b.port(),
        _ => w.fresh_port(),
    };
    let src = SocketAddr::new(src_ip, src_port);
    let base = spec.label.clone().unwrap_or_else(|| format!("{}>{}", if spec.proxy { "p" } else { "h" }, dst));
    let label = w.conn_label(base);
    let id = w.fresh_id();
    let seed = w.cfg.seed;
    let chaos = spec.chaos.clone().unwrap_or_else(|| w.cfg.chaos.clone());
    let mut rng = Rng::derive(seed, &label);
    let cap = |_rng: &mut Rng, chaos: &Chaos| -> usize {
        if chaos.capacity > 0 {
            chaos.capacity
        } else {
            1 << 20
        }
    };
    // the address the accepting side sees for the peer: a dual-stack (v6 wildcard)
    // listener reports IPv4 peers as v4-mapped addresses
    let peer_seen = if laddr.is_ipv6() && src.is_ipv4() {
        match src.ip() {
            IpAddr::V4(a) => SocketAddr::new(IpAddr::V6(a.to_ipv6_mapped()), src.port()),
            _ => src,
        }
    } else {
        src
    };
    let local_seen = if spec.divert.is_some() {
        orig
    } else if laddr.ip().is_unspecified() {
        dst
    } else {
        laddr
    };
    let dst = orig; // what the client believes it is talking to
    let diverted = spec.divert.map(|_| orig);
    let (client, server) = if kernel {
        let (a, b) = std::os::unix::net::UnixStream::pair()?;
        a.set_nonblocking(true)?;
        b.set_nonblocking(true)?;
        if chaos.capacity > 0 && chaos.capacity < (1 << 20) {
            // finite socket buffers on the kernel lane: SO_SNDBUF of both ends (the kernel doubles the
            // value and enforces its own minimum), so that writes and splices can come up short
            use std::os::unix::io::AsRawFd;
            let v: libc::c_int = chaos.capacity as libc::c_int;
            for fd in [a.as_raw_fd(), b.as_raw_fd()] {
                unsafe {
                    libc::setsockopt(fd, libc::SOL_SOCKET, libc::SO_SNDBUF, &v as *const _ as *const libc::c_void, std::mem::size_of::<libc::c_int>() as libc::socklen_t);
                }
            }
            w.count("kernel_small_sndbuf");
        }
        let a = real_tokio::net::UnixStream::from_std(a)?;
        let b = real_tokio::net::UnixStream::from_std(b)?;
        (
            crate::net::TcpStream::from_kernel(a, src, dst, id),
            crate::net::TcpStream::from_kernel(b, local_seen, peer_seen, id).with_original_dst(diverted),
        )
    } else {
        let c0 = cap(&mut rng, &chaos);
        let c1 = cap(&mut rng, &chaos);
        let cs = ConnState {
            id,
            label: label.clone(),
            addr: [src, dst],
            pipes: [Pipe::new(c0), Pipe::new(c1)],
            rst: false,
            rng,
            chaos,
            ends_alive: 2,
            linger0: [false; 2],
        };
        w.conns.insert(id, cs);
        (
            crate::net::TcpStream::from_mem(MemEnd { conn: id, end: 0, local: src, peer: dst }),
            crate::net::TcpStream::from_mem(MemEnd { conn: id, end: 1, local: local_seen, peer: peer_seen }).with_original_dst(diverted),
        )
    };
    w.log("tcp_established", id, 0, format!("{} {}>{}", label, src, dst));
    w.count("tcp_established");
    let l = w.listeners.get_mut(&laddr).unwrap();
    l.backlog.push_back(server);
    let wk = l.waker.take();
    drop(w);
    if let Some(wk) = wk {
        wk.wake();
    }
    Ok(client)
}

/// Harness: connect from an explicit source address with an explicit label and chaos.
pub async fn tcp_connect_from(
    src_ip: IpAddr,
    dst: SocketAddr,
    label: &str,
    chaos: Option<Chaos>,
) -> io::Result<crate::net::TcpStream> {
    connect(ConnectSpec {
        proxy: false,
        bind: None,
        src_ip: Some(src_ip),
        dst,
        label: Some(label.to_string()),
        chaos,
        divert: None,
    })
    .await
}

/// Harness: a connection addressed to `dst` that the (simulated) netfilter TPROXY rule hands
/// to the proxy's listener at `via`.
pub async fn tcp_connect_diverted(
    src_ip: IpAddr,
    dst: SocketAddr,
    via: SocketAddr,
    label: &str,
    chaos: Option<Chaos>,
) -> io::Result<crate::net::TcpStream> {
    connect(ConnectSpec {
        proxy: false,
        bind: None,
        src_ip: Some(src_ip),
        dst,
        label: Some(label.to_string()),
        chaos,
        divert: Some(via),
    })
    .await
}

pub(crate) fn listen(addr: SocketAddr, proxy: bool) -> io::Result<(u64, SocketAddr)> {
    let mut w = world();
    let mut addr = addr;
    if addr.port() == 0 {
        addr.set_port(w.fresh_port());
    }
    if w.listeners.contains_key(&addr) {
        return Err(io::Error::from_raw_os_error(libc::EADDRINUSE));
    }
    let id = w.fresh_id();
    let kernel = w.cfg.backend == Backend::Kernel;
    w.listeners.insert(
        addr,
        ListenerState {
            id,
            addr,
            backlog: VecDeque::new(),
            waker: None,
            proxy,
            kernel,
        },
    );
    if proxy {
        w.proxy_listeners.push(addr);
    }
    w.log("tcp_listen", id, 0, format!("{}{}", if proxy { "proxy " } else { "" }, addr));
    Ok((id, addr))
}

/// Harness: bind a listener at an explicit address.
pub fn tcp_listen(addr: SocketAddr) -> io::Result<crate::net::TcpListener> {
    let (id, addr) = listen(addr, false)?;
    Ok(crate::net::TcpListener::from_parts(id, addr))
}

pub(crate) fn poll_accept(addr: &SocketAddr, cx: &mut Context<'_>) -> Poll<io::Result<crate::net::TcpStream>> {
    let mut w = world();
    if let Some(k) = w.accept_errors.iter().position(|(p, _)| *p == addr.port()) {
        let (_, errno) = w.accept_errors.remove(k);
        return Poll::Ready(Err(io::Error::from_raw_os_error(errno)));
    }
    match w.listeners.get_mut(addr) {
        Some(l) => {
            if let Some(s) = l.backlog.pop_front() {
                let id = l.id;
                w.log("tcp_accept", id, 0, addr.to_string());
                Poll::Ready(Ok(s))
            } else {
                l.waker = Some(cx.waker().clone());
                Poll::Pending
            }
        }
        None => Poll::Ready(Err(io_err(io::ErrorKind::Other, "sim: listener closed"))),
    }
}

pub(crate) fn unlisten(addr: &SocketAddr) {
    let removed = {
        let mut w = world();
        let r = w.listeners.remove(addr);
        if r.is_some() {
            w.log("tcp_unlisten", 0, 0, addr.to_string());
        }
        r
    };
    // dropping the backlog (TcpStreams) must happen outside the world lock
    drop(removed);
}
