//! `tokio::fs` on an in-memory file system owned by the simulation (no blocking pool,
//! no real threads). Only what the repository uses, plus a little slack.

use crate::sim;
use std::io;
use std::path::{Path, PathBuf};
use std::pin::Pin;
use std::task::{Context, Poll};

pub async fn read(path: impl AsRef<Path>) -> io::Result<Vec<u8>> {
    let p = path.as_ref().to_path_buf();
    sim::with(|w| {
        w.log("fs_read", 0, 0, p.display().to_string());
        w.files.get(&p).cloned()
    })
    .ok_or_else(|| io::Error::from_raw_os_error(libc::ENOENT))
}

pub async fn read_to_string(path: impl AsRef<Path>) -> io::Result<String> {
    let v = read(path).await?;
    String::from_utf8(v).map_err(|e| io::Error::new(io::ErrorKind::InvalidData, e))
}

pub async fn write(path: impl AsRef<Path>, contents: impl AsRef<[u8]>) -> io::Result<()> {
    let p = path.as_ref().to_path_buf();
    let c = contents.as_ref().to_vec();
    sim::with(|w| {
        w.log("fs_write", 0, c.len() as u64, p.display().to_string());
        w.files.insert(p, c);
    });
    Ok(())
}

pub async fn remove_file(path: impl AsRef<Path>) -> io::Result<()> {
    let p = path.as_ref().to_path_buf();
    sim::with(|w| w.files.remove(&p)).map(|_| ()).ok_or_else(|| io::Error::from_raw_os_error(libc::ENOENT))
}

pub async fn rename(from: impl AsRef<Path>, to: impl AsRef<Path>) -> io::Result<()> {
    let (f, t) = (from.as_ref().to_path_buf(), to.as_ref().to_path_buf());
    sim::with(|w| match w.files.remove(&f) {
        Some(d) => {
            w.files.insert(t, d);
            Ok(())
        }
        None => Err(io::Error::from_raw_os_error(libc::ENOENT)),
    })
}

#[derive(Clone, Debug, Default)]
pub struct OpenOptions {
    read: bool,
    write: bool,
    append: bool,
    create: bool,
    truncate: bool,
    create_new: bool,
}

impl OpenOptions {
    pub fn new() -> Self {
        Self::default()
    }
    pub fn read(&mut self, v: bool) -> &mut Self {
        self.read = v;
        self
    }
    pub fn write(&mut self, v: bool) -> &mut Self {
        self.write = v;
        self
    }
    pub fn append(&mut self, v: bool) -> &mut Self {
        self.append = v;
        self
    }
    pub fn create(&mut self, v: bool) -> &mut Self {
        self.create = v;
        self
    }
    pub fn truncate(&mut self, v: bool) -> &mut Self {
        self.truncate = v;
        self
    }
    pub fn create_new(&mut self, v: bool) -> &mut Self {
        self.create_new = v;
        self
    }
    pub async fn open(&self, path: impl AsRef<Path>) -> io::Result<File> {
        let p = path.as_ref().to_path_buf();
        let o = self.clone();
        sim::with(|w| {
            w.log("fs_open", 0, 0, p.display().to_string());
            // file operations run on the blocking pool, which a runtime that is shutting down no longer serves: an open
            // issued by a task that is still being polled then fails ("background task failed")
            if crate::shutting_down() && w.sched_rng.chance(500) {
                w.count("fs_open_during_shutdown_failed");
                return Err(io::Error::new(io::ErrorKind::Other, "background task failed"));
            }
            // a path whose parent is a regular file, or an empty path, cannot be opened
            if p.as_os_str().is_empty() {
                return Err(io::Error::from_raw_os_error(libc::ENOENT));
            }
            if p.to_string_lossy().ends_with('/') {
                return Err(io::Error::from_raw_os_error(libc::EISDIR));
            }
            let exists = w.files.contains_key(&p);
            if o.create_new && exists {
                return Err(io::Error::from_raw_os_error(libc::EEXIST));
            }
            if !exists {
                if o.create || o.create_new {
                    w.files.insert(p.clone(), Vec::new());
                } else {
                    return Err(io::Error::from_raw_os_error(libc::ENOENT));
                }
            } else if o.truncate {
                w.files.insert(p.clone(), Vec::new());
            }
            Ok(File { path: p.clone(), pos: 0, append: o.append })
        })
    }
}

#[derive(Debug)]
pub struct File {
    path: PathBuf,
    pos: usize,
    append: bool,
}

impl File {
    pub async fn open(path: impl AsRef<Path>) -> io::Result<File> {
        OpenOptions::new().read(true).open(path).await
    }
    pub async fn create(path: impl AsRef<Path>) -> io::Result<File> {
        OpenOptions::new().write(true).create(true).truncate(true).open(path).await
    }
    pub async fn sync_all(&self) -> io::Result<()> {
        Ok(())
    }
    pub async fn sync_data(&self) -> io::Result<()> {
        Ok(())
    }
}

impl real_tokio::io::AsyncRead for File {
    fn poll_read(self: Pin<&mut Self>, _cx: &mut Context<'_>, buf: &mut real_tokio::io::ReadBuf<'_>) -> Poll<io::Result<()>> {
        let me = self.get_mut();
        sim::with(|w| {
            if let Some(d) = w.files.get(&me.path) {
                if me.pos < d.len() {
                    let n = (d.len() - me.pos).min(buf.remaining());
                    buf.put_slice(&d[me.pos..me.pos + n]);
                    me.pos += n;
                }
            }
        });
        Poll::Ready(Ok(()))
    }
}

impl real_tokio::io::AsyncWrite for File {
    fn poll_write(self: Pin<&mut Self>, _cx: &mut Context<'_>, data: &[u8]) -> Poll<io::Result<usize>> {
        let me = self.get_mut();
        // a file system without space: every write to /dev/full (as on Linux) or below /sim/full/ fails with ENOSPC
        if me.path == std::path::Path::new("/dev/full") || me.path.starts_with("/sim/full") {
            sim::with(|w| w.count("fs_enospc"));
            return Poll::Ready(Err(io::Error::from_raw_os_error(libc::ENOSPC)));
        }
        sim::with(|w| {
            let d = w.files.entry(me.path.clone()).or_default();
            if me.append {
                d.extend_from_slice(data);
            } else {
                if d.len() < me.pos + data.len() {
                    d.resize(me.pos + data.len(), 0);
                }
                d[me.pos..me.pos + data.len()].copy_from_slice(data);
                me.pos += data.len();
            }
            let p = me.path.display().to_string();
            w.log("fs_append", 0, data.len() as u64, p);
        });
        Poll::Ready(Ok(data.len()))
    }
    fn poll_flush(self: Pin<&mut Self>, _cx: &mut Context<'_>) -> Poll<io::Result<()>> {
        Poll::Ready(Ok(()))
    }
    fn poll_shutdown(self: Pin<&mut Self>, _cx: &mut Context<'_>) -> Poll<io::Result<()>> {
        Poll::Ready(Ok(()))
    }
}
