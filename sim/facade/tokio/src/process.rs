//! `tokio::process::Command` stub: the external program is looked up in the plan's verdict
//! table; every invocation is logged.

use crate::sim::{self, CmdOutcome};
use std::ffi::OsStr;
use std::io;
use std::process::ExitStatus;

#[derive(Debug)]
pub struct Command {
    argv: Vec<String>,
}

impl Command {
    pub fn new<S: AsRef<OsStr>>(program: S) -> Command {
        Command { argv: vec![program.as_ref().to_string_lossy().to_string()] }
    }
    pub fn arg<S: AsRef<OsStr>>(&mut self, arg: S) -> &mut Command {
        self.argv.push(arg.as_ref().to_string_lossy().to_string());
        self
    }
    pub fn args<I, S>(&mut self, args: I) -> &mut Command
    where
        I: IntoIterator<Item = S>,
        S: AsRef<OsStr>,
    {
        for a in args {
            self.arg(a);
        }
        self
    }
    pub fn kill_on_drop(&mut self, _v: bool) -> &mut Command {
        self
    }
    pub fn spawn(&mut self) -> io::Result<Child> {
        let argv = self.argv.clone();
        let out = sim::with(|w| {
            w.log("cmd_exec", 0, 0, format!("{:?}", argv));
            w.count("cmd_exec");
            match &w.cmd_handler {
                Some(h) => h(&argv),
                None => CmdOutcome { spawn_fail: true, exit_code: 127, latency_ms: 0 },
            }
        });
        if out.spawn_fail {
            return Err(io::Error::from_raw_os_error(libc::ENOENT));
        }
        Ok(Child { out })
    }
    pub async fn status(&mut self) -> io::Result<ExitStatus> {
        self.spawn()?.wait().await
    }
}

#[derive(Debug)]
pub struct Child {
    out: CmdOutcome,
}

impl Child {
    pub async fn wait(&mut self) -> io::Result<ExitStatus> {
        use std::os::unix::process::ExitStatusExt;
        if self.out.latency_ms > 0 {
            real_tokio::time::sleep(std::time::Duration::from_millis(self.out.latency_ms)).await;
        }
        if self.out.exit_code < 0 {
            // killed by signal -exit_code (a helper that crashes, is OOM-killed, hits a ulimit): no exit code at all
            return Ok(ExitStatus::from_raw((-self.out.exit_code) & 0x7f));
        }
        Ok(ExitStatus::from_raw((self.out.exit_code & 0xff) << 8))
    }
    pub fn id(&self) -> Option<u32> {
        Some(4242)
    }
}
