//! `tokio::sync` with seeded scheduling points at the asynchronous locks.
//!
//! Everything is the real tokio except `RwLock` and `Mutex`, which are transparent wrappers: before an
//! acquisition they yield to the scheduler a seeded number of times (plan parameter `lock_yield`, per mille;
//! 0 = never, the default). On a single-threaded runtime an uncontended acquisition never suspends, so code that
//! takes a lock several times in a row is atomic with respect to every other task; on the shipped multi-threaded
//! runtime it is not. The yields give the simulator the interleavings at these points (and only there).
//! The guards are the real guards.

pub use real_tokio::sync::*;

use real_tokio::sync as real;
use std::sync::Arc;

async fn sched_point() {
    let k = if crate::sim::is_started() {
        crate::sim::with(|w| {
            let p = w.cfg.lock_yield;
            if p > 0 && w.sched_rng.chance(p) {
                w.count("lock_yield");
                1 + w.sched_rng.below(3)
            } else {
                0
            }
        })
    } else {
        0
    };
    for _ in 0..k {
        real_tokio::task::yield_now().await;
    }
}

#[repr(transparent)]
#[derive(Debug, Default)]
pub struct RwLock<T: ?Sized>(real::RwLock<T>);

impl<T> RwLock<T> {
    pub fn new(value: T) -> Self {
        RwLock(real::RwLock::new(value))
    }
    pub fn into_inner(self) -> T {
        self.0.into_inner()
    }
}

impl<T: ?Sized> RwLock<T> {
    pub async fn read(&self) -> real::RwLockReadGuard<'_, T> {
        sched_point().await;
        self.0.read().await
    }
    pub async fn write(&self) -> real::RwLockWriteGuard<'_, T> {
        sched_point().await;
        self.0.write().await
    }
    pub fn try_read(&self) -> Result<real::RwLockReadGuard<'_, T>, real::TryLockError> {
        self.0.try_read()
    }
    pub fn try_write(&self) -> Result<real::RwLockWriteGuard<'_, T>, real::TryLockError> {
        self.0.try_write()
    }
    pub fn get_mut(&mut self) -> &mut T {
        self.0.get_mut()
    }
    fn into_real(self: Arc<Self>) -> Arc<real::RwLock<T>> {
        // repr(transparent): same layout, same allocation
        unsafe { Arc::from_raw(Arc::into_raw(self) as *const real::RwLock<T>) }
    }
    pub async fn read_owned(self: Arc<Self>) -> real::OwnedRwLockReadGuard<T> {
        sched_point().await;
        self.into_real().read_owned().await
    }
    pub async fn write_owned(self: Arc<Self>) -> real::OwnedRwLockWriteGuard<T> {
        sched_point().await;
        self.into_real().write_owned().await
    }
}

impl<T> From<T> for RwLock<T> {
    fn from(v: T) -> Self {
        RwLock::new(v)
    }
}

#[repr(transparent)]
#[derive(Debug, Default)]
pub struct Mutex<T: ?Sized>(real::Mutex<T>);

impl<T> Mutex<T> {
    pub fn new(value: T) -> Self {
        Mutex(real::Mutex::new(value))
    }
    pub fn into_inner(self) -> T {
        self.0.into_inner()
    }
}

impl<T: ?Sized> Mutex<T> {
    pub async fn lock(&self) -> real::MutexGuard<'_, T> {
        sched_point().await;
        self.0.lock().await
    }
    pub fn try_lock(&self) -> Result<real::MutexGuard<'_, T>, real::TryLockError> {
        self.0.try_lock()
    }
    pub fn get_mut(&mut self) -> &mut T {
        self.0.get_mut()
    }
    pub async fn lock_owned(self: Arc<Self>) -> real::OwnedMutexGuard<T> {
        sched_point().await;
        let r: Arc<real::Mutex<T>> = unsafe { Arc::from_raw(Arc::into_raw(self) as *const real::Mutex<T>) };
        r.lock_owned().await
    }
}

impl<T> From<T> for Mutex<T> {
    fn from(v: T) -> Self {
        Mutex::new(v)
    }
}
