//! `tokio::net` as the repository sees it, implemented on the simulated world.
//! Constructors reachable from here act with the *proxy's* identity; the harness uses the
//! explicit constructors in `tokio::sim`.

use crate::sim::{self, tcp, udp, Backend, DnsAnswer};
use std::future::Future;
use std::io;
use std::net::{IpAddr, Ipv4Addr, Ipv6Addr, SocketAddr, SocketAddrV4, SocketAddrV6};
use std::os::unix::io::{AsRawFd, RawFd};
use std::pin::Pin;
use std::sync::{Arc, Mutex, OnceLock};
use std::task::{Context, Poll};

pub use real_tokio::net::{UnixDatagram, UnixListener, UnixStream};
pub mod unix {
    pub use real_tokio::net::unix::*;
}

// ---------------------------------------------------------------------------------------
// address resolution

#[derive(Clone, Debug)]
pub enum SimTarget {
    Addrs(Vec<SocketAddr>),
    Name(String, u16),
    Invalid(String),
}

/// The facade's own (unsealed) version of `tokio::net::ToSocketAddrs`: host names are kept
/// as names and resolved through the simulation's DNS table, never by the real resolver.
pub trait ToSocketAddrs {
    fn to_sim_target(&self) -> SimTarget;
}

impl ToSocketAddrs for SocketAddr {
    fn to_sim_target(&self) -> SimTarget {
        SimTarget::Addrs(vec![*self])
    }
}
impl ToSocketAddrs for SocketAddrV4 {
    fn to_sim_target(&self) -> SimTarget {
        SimTarget::Addrs(vec![SocketAddr::V4(*self)])
    }
}
impl ToSocketAddrs for SocketAddrV6 {
    fn to_sim_target(&self) -> SimTarget {
        SimTarget::Addrs(vec![SocketAddr::V6(*self)])
    }
}
impl ToSocketAddrs for (IpAddr, u16) {
    fn to_sim_target(&self) -> SimTarget {
        SimTarget::Addrs(vec![SocketAddr::new(self.0, self.1)])
    }
}
impl ToSocketAddrs for (Ipv4Addr, u16) {
    fn to_sim_target(&self) -> SimTarget {
        SimTarget::Addrs(vec![SocketAddr::new(IpAddr::V4(self.0), self.1)])
    }
}
impl ToSocketAddrs for (Ipv6Addr, u16) {
    fn to_sim_target(&self) -> SimTarget {
        SimTarget::Addrs(vec![SocketAddr::new(IpAddr::V6(self.0), self.1)])
    }
}
impl ToSocketAddrs for [SocketAddr] {
    fn to_sim_target(&self) -> SimTarget {
        SimTarget::Addrs(self.to_vec())
    }
}
fn host_port(host: &str, port: u16) -> SimTarget {
    if let Ok(ip) = host.parse::<IpAddr>() {
        SimTarget::Addrs(vec![SocketAddr::new(ip, port)])
    } else {
        SimTarget::Name(host.to_string(), port)
    }
}
impl ToSocketAddrs for (&str, u16) {
    fn to_sim_target(&self) -> SimTarget {
        host_port(self.0, self.1)
    }
}
impl ToSocketAddrs for (String, u16) {
    fn to_sim_target(&self) -> SimTarget {
        host_port(&self.0, self.1)
    }
}
impl ToSocketAddrs for str {
    fn to_sim_target(&self) -> SimTarget {
        if let Ok(a) = self.parse::<SocketAddr>() {
            return SimTarget::Addrs(vec![a]);
        }
        match self.rsplit_once(':') {
            Some((h, p)) => match p.parse::<u16>() {
                Ok(p) => host_port(h, p),
                Err(_) => SimTarget::Invalid(self.to_string()),
            },
            None => SimTarget::Invalid(self.to_string()),
        }
    }
}
impl ToSocketAddrs for String {
    fn to_sim_target(&self) -> SimTarget {
        self.as_str().to_sim_target()
    }
}
impl<T: ToSocketAddrs + ?Sized> ToSocketAddrs for &T {
    fn to_sim_target(&self) -> SimTarget {
        (**self).to_sim_target()
    }
}

pub(crate) async fn resolve(t: SimTarget) -> io::Result<Vec<SocketAddr>> {
    match t {
        SimTarget::Addrs(a) => Ok(a),
        SimTarget::Invalid(s) => Err(io::Error::new(io::ErrorKind::InvalidInput, format!("invalid socket address: {}", s))),
        SimTarget::Name(name, port) => {
            let ans = sim::with(|w| {
                let a = w.dns.get(&name.to_ascii_lowercase()).cloned();
                w.log("dns", 0, port as u64, name.clone());
                w.count("dns_lookup");
                a
            });
            match ans {
                Some(DnsAnswer::Addrs(v)) if !v.is_empty() => Ok(v.into_iter().map(|ip| SocketAddr::new(ip, port)).collect()),
                Some(DnsAnswer::Delayed(ms, v)) => {
                    real_tokio::time::sleep(std::time::Duration::from_millis(ms)).await;
                    if v.is_empty() {
                        Err(io::Error::new(io::ErrorKind::Other, "failed to lookup address information: Name or service not known"))
                    } else {
                        Ok(v.into_iter().map(|ip| SocketAddr::new(ip, port)).collect())
                    }
                }
                _ => Err(io::Error::new(
                    io::ErrorKind::Other,
                    "failed to lookup address information: Name or service not known",
                )),
            }
        }
    }
}

pub async fn lookup_host<T: ToSocketAddrs>(host: T) -> io::Result<impl Iterator<Item = SocketAddr>> {
    let v = resolve(host.to_sim_target()).await?;
    Ok(v.into_iter())
}

/// Resolve a name through the simulation's DNS table (used by the `dns.rs` hook).
pub fn sim_dns_lookup(name: &str) -> Option<DnsAnswer> {
    if let Ok(ip) = name.parse::<IpAddr>() {
        return Some(DnsAnswer::Addrs(vec![ip]));
    }
    sim::with(|w| {
        w.log("dns", 1, 0, name.to_string());
        w.count("dns_lookup");
        w.dns.get(&name.to_ascii_lowercase()).cloned()
    })
}

// ---------------------------------------------------------------------------------------
// token fds: real, unconnected sockets so that setsockopt() on as_raw_fd() works

fn token_tcp_fd() -> RawFd {
    static FD: OnceLock<RawFd> = OnceLock::new();
    *FD.get_or_init(|| unsafe { libc::socket(libc::AF_INET, libc::SOCK_STREAM | libc::SOCK_CLOEXEC, 0) })
}
fn token_udp_fd() -> RawFd {
    static FD: OnceLock<RawFd> = OnceLock::new();
    *FD.get_or_init(|| unsafe { libc::socket(libc::AF_INET, libc::SOCK_DGRAM | libc::SOCK_CLOEXEC, 0) })
}

// ---------------------------------------------------------------------------------------
// TCP

enum Inner {
    Mem(tcp::MemEnd),
    Kernel {
        s: real_tokio::net::UnixStream,
        local: SocketAddr,
        peer: SocketAddr,
        id: u64,
    },
}

pub struct TcpStream {
    inner: Inner,
    /// set on the accepted end of a connection that the simulated TPROXY rule diverted
    orig_dst: Option<SocketAddr>,
}

// What getsockopt(SO_ORIGINAL_DST / IP6T_SO_ORIGINAL_DST) reports: every simulated stream shares
// one token descriptor, so the answer is that of the stream accepted last (the only caller asks
// synchronously, right after accept(), on a single-threaded runtime).
static LAST_ACCEPTED_ORIG: Mutex<Option<SocketAddr>> = Mutex::new(None);

/// nix facade: original destination of the stream accepted last (None = ENOENT)
pub fn sim_original_dst(fd: RawFd) -> Option<Option<SocketAddr>> {
    if fd == token_tcp_fd() {
        Some(*LAST_ACCEPTED_ORIG.lock().unwrap())
    } else {
        None
    }
}

impl std::fmt::Debug for TcpStream {
    fn fmt(&self, f: &mut std::fmt::Formatter<'_>) -> std::fmt::Result {
        match &self.inner {
            Inner::Mem(m) => write!(f, "SimTcpStream(mem #{} e{} {}>{})", m.conn, m.end, m.local, m.peer),
            Inner::Kernel { local, peer, id, .. } => write!(f, "SimTcpStream(kernel #{} {}>{})", id, local, peer),
        }
    }
}

impl TcpStream {
    pub(crate) fn from_mem(m: tcp::MemEnd) -> Self {
        TcpStream { inner: Inner::Mem(m), orig_dst: None }
    }
    pub(crate) fn from_kernel(s: real_tokio::net::UnixStream, local: SocketAddr, peer: SocketAddr, id: u64) -> Self {
        TcpStream {
            inner: Inner::Kernel { s, local, peer, id },
            orig_dst: None,
        }
    }
    pub(crate) fn with_original_dst(mut self, d: Option<SocketAddr>) -> Self {
        self.orig_dst = d;
        self
    }
    pub(crate) fn mem_end(&self) -> Option<&tcp::MemEnd> {
        match &self.inner {
            Inner::Mem(m) => Some(m),
            _ => None,
        }
    }
    /// simulation id of the connection
    pub fn sim_id(&self) -> u64 {
        match &self.inner {
            Inner::Mem(m) => m.conn,
            Inner::Kernel { id, .. } => *id,
        }
    }

    pub async fn connect<A: ToSocketAddrs>(addr: A) -> io::Result<TcpStream> {
        let addrs = resolve(addr.to_sim_target()).await?;
        let mut last = None;
        for a in addrs {
            match tcp::connect(tcp::ConnectSpec {
                proxy: true,
                bind: None,
                src_ip: None,
                dst: a,
                label: None,
                chaos: None,
                divert: None,
            })
            .await
            {
                Ok(s) => return Ok(s),
                Err(e) => last = Some(e),
            }
        }
        Err(last.unwrap_or_else(|| io::Error::new(io::ErrorKind::InvalidInput, "could not resolve to any address")))
    }

    pub fn local_addr(&self) -> io::Result<SocketAddr> {
        Ok(match &self.inner {
            Inner::Mem(m) => m.local,
            Inner::Kernel { local, .. } => *local,
        })
    }
    pub fn peer_addr(&self) -> io::Result<SocketAddr> {
        Ok(match &self.inner {
            Inner::Mem(m) => m.peer,
            Inner::Kernel { peer, .. } => *peer,
        })
    }
    pub fn set_nodelay(&self, _nodelay: bool) -> io::Result<()> {
        Ok(())
    }
    pub fn nodelay(&self) -> io::Result<bool> {
        Ok(true)
    }
    pub fn set_ttl(&self, _ttl: u32) -> io::Result<()> {
        Ok(())
    }
    pub fn ttl(&self) -> io::Result<u32> {
        Ok(64)
    }
    pub fn set_linger(&self, dur: Option<std::time::Duration>) -> io::Result<()> {
        // only the abortive form changes what the peer observes; the kernel lane (AF_UNIX) has no equivalent
        if let Inner::Mem(m) = &self.inner {
            sim::tcp::set_linger0(m.conn, m.end, dur == Some(std::time::Duration::ZERO));
        }
        Ok(())
    }
    pub fn linger(&self) -> io::Result<Option<std::time::Duration>> {
        Ok(None)
    }
    /// Only the kernel lane has a descriptor that can be handed to splice(2).
    pub fn into_std(self) -> io::Result<std::os::unix::net::UnixStream> {
        let me = std::mem::ManuallyDrop::new(self);
        // move the inner value out without running our Drop
        let inner = unsafe { std::ptr::read(&me.inner) };
        match inner {
            Inner::Kernel { s, .. } => s.into_std(),
            Inner::Mem(m) => {
                sim::with(|w| {
                    w.harness_error = Some("TcpStream::into_std() on the in-memory lane (useSplice must be false there)".into());
                });
                m.close();
                Err(io::Error::new(io::ErrorKind::Unsupported, "sim: into_std on in-memory stream"))
            }
        }
    }
    pub fn into_split(self) -> (real_tokio::io::ReadHalf<TcpStream>, real_tokio::io::WriteHalf<TcpStream>) {
        real_tokio::io::split(self)
    }
    pub async fn readable(&self) -> io::Result<()> {
        Ok(())
    }
    pub async fn writable(&self) -> io::Result<()> {
        Ok(())
    }
}

impl AsRawFd for TcpStream {
    fn as_raw_fd(&self) -> RawFd {
        match &self.inner {
            Inner::Mem(_) => token_tcp_fd(),
            // SO_KEEPALIVE etc. do not exist on AF_UNIX: hand out the token as well
            Inner::Kernel { .. } => token_tcp_fd(),
        }
    }
}

impl Drop for TcpStream {
    fn drop(&mut self) {
        if let Inner::Mem(m) = &self.inner {
            if sim::is_started() {
                m.close();
            }
        }
    }
}

impl real_tokio::io::AsyncRead for TcpStream {
    fn poll_read(self: Pin<&mut Self>, cx: &mut Context<'_>, buf: &mut real_tokio::io::ReadBuf<'_>) -> Poll<io::Result<()>> {
        match &mut self.get_mut().inner {
            Inner::Mem(m) => m.poll_read(cx, buf),
            Inner::Kernel { s, .. } => Pin::new(s).poll_read(cx, buf),
        }
    }
}

impl real_tokio::io::AsyncWrite for TcpStream {
    fn poll_write(self: Pin<&mut Self>, cx: &mut Context<'_>, buf: &[u8]) -> Poll<io::Result<usize>> {
        match &mut self.get_mut().inner {
            Inner::Mem(m) => m.poll_write(cx, buf),
            Inner::Kernel { s, .. } => Pin::new(s).poll_write(cx, buf),
        }
    }
    fn poll_flush(self: Pin<&mut Self>, _cx: &mut Context<'_>) -> Poll<io::Result<()>> {
        Poll::Ready(Ok(()))
    }
    fn poll_shutdown(self: Pin<&mut Self>, cx: &mut Context<'_>) -> Poll<io::Result<()>> {
        match &mut self.get_mut().inner {
            Inner::Mem(m) => m.poll_shutdown(cx),
            Inner::Kernel { s, .. } => Pin::new(s).poll_shutdown(cx),
        }
    }
}

pub struct TcpListener {
    id: u64,
    addr: SocketAddr,
}

impl std::fmt::Debug for TcpListener {
    fn fmt(&self, f: &mut std::fmt::Formatter<'_>) -> std::fmt::Result {
        write!(f, "SimTcpListener(#{} {})", self.id, self.addr)
    }
}

impl TcpListener {
    pub(crate) fn from_parts(id: u64, addr: SocketAddr) -> Self {
        TcpListener { id, addr }
    }
    pub async fn bind<A: ToSocketAddrs>(addr: A) -> io::Result<TcpListener> {
        let addrs = resolve(addr.to_sim_target()).await?;
        let mut last = None;
        for a in addrs {
            match tcp::listen(a, true) {
                Ok((id, addr)) => return Ok(TcpListener { id, addr }),
                Err(e) => last = Some(e),
            }
        }
        Err(last.unwrap_or_else(|| io::Error::new(io::ErrorKind::InvalidInput, "could not resolve to any address")))
    }
    pub async fn accept(&self) -> io::Result<(TcpStream, SocketAddr)> {
        let s = std::future::poll_fn(|cx| tcp::poll_accept(&self.addr, cx)).await?;
        *LAST_ACCEPTED_ORIG.lock().unwrap() = s.orig_dst;
        let peer = s.peer_addr()?;
        Ok((s, peer))
    }
    pub fn poll_accept(&self, cx: &mut Context<'_>) -> Poll<io::Result<(TcpStream, SocketAddr)>> {
        match tcp::poll_accept(&self.addr, cx) {
            Poll::Ready(Ok(s)) => {
                *LAST_ACCEPTED_ORIG.lock().unwrap() = s.orig_dst;
                let peer = s.peer_addr()?;
                Poll::Ready(Ok((s, peer)))
            }
            Poll::Ready(Err(e)) => Poll::Ready(Err(e)),
            Poll::Pending => Poll::Pending,
        }
    }
    pub fn local_addr(&self) -> io::Result<SocketAddr> {
        Ok(self.addr)
    }
    pub fn set_ttl(&self, _ttl: u32) -> io::Result<()> {
        Ok(())
    }
    /// synchronous bind with the proxy's identity (used by the axum facade)
    pub fn sim_bind_proxy(addr: SocketAddr) -> io::Result<TcpListener> {
        let (id, addr) = tcp::listen(addr, true)?;
        Ok(TcpListener { id, addr })
    }
}

impl AsRawFd for TcpListener {
    fn as_raw_fd(&self) -> RawFd {
        token_tcp_fd()
    }
}

impl Drop for TcpListener {
    fn drop(&mut self) {
        if sim::is_started() {
            tcp::unlisten(&self.addr);
        }
    }
}

pub struct TcpSocket {
    v6: bool,
    bind: Mutex<Option<SocketAddr>>,
}

impl TcpSocket {
    pub fn new_v4() -> io::Result<TcpSocket> {
        Ok(TcpSocket { v6: false, bind: Mutex::new(None) })
    }
    pub fn new_v6() -> io::Result<TcpSocket> {
        Ok(TcpSocket { v6: true, bind: Mutex::new(None) })
    }
    pub fn bind(&self, addr: SocketAddr) -> io::Result<()> {
        if addr.is_ipv6() != self.v6 {
            return Err(io::Error::from_raw_os_error(libc::EAFNOSUPPORT));
        }
        *self.bind.lock().unwrap() = Some(addr);
        Ok(())
    }
    pub fn set_reuseaddr(&self, _v: bool) -> io::Result<()> {
        Ok(())
    }
    pub fn set_reuseport(&self, _v: bool) -> io::Result<()> {
        Ok(())
    }
    pub fn set_keepalive(&self, _v: bool) -> io::Result<()> {
        Ok(())
    }
    pub fn set_nodelay(&self, _v: bool) -> io::Result<()> {
        Ok(())
    }
    pub fn local_addr(&self) -> io::Result<SocketAddr> {
        Ok(self.bind.lock().unwrap().unwrap_or_else(|| {
            if self.v6 {
                SocketAddr::new(IpAddr::V6(Ipv6Addr::UNSPECIFIED), 0)
            } else {
                SocketAddr::new(IpAddr::V4(Ipv4Addr::UNSPECIFIED), 0)
            }
        }))
    }
    pub async fn connect(self, addr: SocketAddr) -> io::Result<TcpStream> {
        if addr.is_ipv6() != self.v6 {
            return Err(io::Error::from_raw_os_error(libc::EAFNOSUPPORT));
        }
        let bind = *self.bind.lock().unwrap();
        tcp::connect(tcp::ConnectSpec {
            proxy: true,
            bind,
            src_ip: None,
            dst: addr,
            label: None,
            chaos: None,
            divert: None,
        })
        .await
    }
    pub fn listen(self, _backlog: u32) -> io::Result<TcpListener> {
        let addr = self.local_addr()?;
        let (id, addr) = tcp::listen(addr, true)?;
        Ok(TcpListener { id, addr })
    }
}

impl AsRawFd for TcpSocket {
    fn as_raw_fd(&self) -> RawFd {
        token_tcp_fd()
    }
}

// ---------------------------------------------------------------------------------------
// UDP

pub struct UdpSocket {
    st: udp::UdpRef,
}

impl std::fmt::Debug for UdpSocket {
    fn fmt(&self, f: &mut std::fmt::Formatter<'_>) -> std::fmt::Result {
        let g = self.st.lock().unwrap();
        write!(f, "SimUdpSocket(#{} {})", g.id, g.local)
    }
}

/// Addresses recorded by the nix facade for sockets created with raw `socket()/bind()/connect()`.
#[derive(Clone, Debug, Default)]
pub struct RawSockIntent {
    pub local: Option<SocketAddr>,
    pub remote: Option<SocketAddr>,
    pub reuse: bool,
}

static RAW_INTENTS: Mutex<Option<std::collections::HashMap<RawFd, RawSockIntent>>> = Mutex::new(None);

pub fn raw_intent_set(fd: RawFd, f: impl FnOnce(&mut RawSockIntent)) {
    let mut g = RAW_INTENTS.lock().unwrap();
    let m = g.get_or_insert_with(Default::default);
    f(m.entry(fd).or_default());
}
pub fn raw_intent_known(fd: RawFd) -> bool {
    RAW_INTENTS.lock().unwrap().as_ref().map(|m| m.contains_key(&fd)).unwrap_or(false)
}
pub fn raw_intent_take(fd: RawFd) -> Option<RawSockIntent> {
    RAW_INTENTS.lock().unwrap().as_mut().and_then(|m| m.remove(&fd))
}

impl UdpSocket {
    pub(crate) fn from_state(st: udp::UdpRef) -> Self {
        UdpSocket { st }
    }
    pub fn sim_id(&self) -> u64 {
        self.st.lock().unwrap().id
    }
    /// synchronous bind with the proxy's identity (used by the quinn facade)
    pub fn sim_bind_proxy(addr: SocketAddr) -> io::Result<UdpSocket> {
        Ok(UdpSocket { st: udp::bind(addr, true, None)? })
    }
    pub async fn bind<A: ToSocketAddrs>(addr: A) -> io::Result<UdpSocket> {
        let addrs = resolve(addr.to_sim_target()).await?;
        let a = addrs
            .into_iter()
            .next()
            .ok_or_else(|| io::Error::new(io::ErrorKind::InvalidInput, "could not resolve to any address"))?;
        Ok(UdpSocket { st: udp::bind(a, true, None)? })
    }
    /// Adopt a socket created with raw system calls through the nix facade.
    pub fn from_std(socket: std::net::UdpSocket) -> io::Result<UdpSocket> {
        let fd = socket.as_raw_fd();
        let intent = raw_intent_take(fd);
        drop(socket);
        match intent {
            Some(RawSockIntent { local: Some(local), remote, reuse }) => Ok(UdpSocket { st: udp::bind_opt(local, true, remote, reuse)? }),
            _ => {
                sim::with(|w| w.harness_error = Some("UdpSocket::from_std on a socket the simulation does not know".into()));
                Err(io::Error::new(io::ErrorKind::Unsupported, "sim: unknown std socket"))
            }
        }
    }
    pub async fn connect<A: ToSocketAddrs>(&self, addr: A) -> io::Result<()> {
        let addrs = resolve(addr.to_sim_target()).await?;
        let a = addrs
            .into_iter()
            .next()
            .ok_or_else(|| io::Error::new(io::ErrorKind::InvalidInput, "could not resolve to any address"))?;
        let mut g = self.st.lock().unwrap();
        // an AF_INET socket cannot be connected to an IPv6 address (a dual-stack AF_INET6 socket can be to an IPv4 one)
        if g.local.is_ipv4() && matches!(a, SocketAddr::V6(v6) if v6.ip().to_ipv4_mapped().is_none()) {
            return Err(io::Error::from_raw_os_error(libc::EAFNOSUPPORT));
        }
        g.connected = Some(a);
        // datagrams from other peers that were already queued are discarded like the kernel
        // does for a connected socket? (Linux keeps them.) Keep them.
        let id = g.id;
        drop(g);
        sim::log_event("udp_connect", id, 0, a.to_string());
        Ok(())
    }
    pub fn local_addr(&self) -> io::Result<SocketAddr> {
        Ok(self.st.lock().unwrap().local)
    }
    pub fn peer_addr(&self) -> io::Result<SocketAddr> {
        self.st
            .lock()
            .unwrap()
            .connected
            .ok_or_else(|| io::Error::from_raw_os_error(libc::ENOTCONN))
    }
    pub async fn send(&self, buf: &[u8]) -> io::Result<usize> {
        udp::send(&self.st, buf, None)
    }
    pub async fn send_to<A: ToSocketAddrs>(&self, buf: &[u8], target: A) -> io::Result<usize> {
        let addrs = resolve(target.to_sim_target()).await?;
        let a = addrs
            .into_iter()
            .next()
            .ok_or_else(|| io::Error::new(io::ErrorKind::InvalidInput, "could not resolve to any address"))?;
        udp::send(&self.st, buf, Some(a))
    }
    pub fn try_send_to(&self, buf: &[u8], target: SocketAddr) -> io::Result<usize> {
        udp::send(&self.st, buf, Some(target))
    }
    pub fn try_send(&self, buf: &[u8]) -> io::Result<usize> {
        udp::send(&self.st, buf, None)
    }
    pub async fn recv_from(&self, buf: &mut [u8]) -> io::Result<(usize, SocketAddr)> {
        let (data, from, _to) = std::future::poll_fn(|cx| udp::poll_recv(&self.st, cx)).await?;
        let n = data.len().min(buf.len());
        buf[..n].copy_from_slice(&data[..n]);
        Ok((n, from))
    }
    pub async fn recv(&self, buf: &mut [u8]) -> io::Result<usize> {
        Ok(self.recv_from(buf).await?.0)
    }
    /// (data, from, to) — used by the QUIC facade and the harness
    pub fn poll_recv_dgram(&self, cx: &mut Context<'_>) -> Poll<io::Result<(Vec<u8>, SocketAddr, SocketAddr)>> {
        udp::poll_recv(&self.st, cx)
    }
    pub async fn recv_dgram(&self) -> io::Result<(Vec<u8>, SocketAddr, SocketAddr)> {
        std::future::poll_fn(|cx| udp::poll_recv(&self.st, cx)).await
    }
    pub fn poll_recv_from(&self, cx: &mut Context<'_>, buf: &mut real_tokio::io::ReadBuf<'_>) -> Poll<io::Result<SocketAddr>> {
        match udp::poll_recv(&self.st, cx) {
            Poll::Ready(Ok((data, from, _))) => {
                let n = data.len().min(buf.remaining());
                buf.put_slice(&data[..n]);
                Poll::Ready(Ok(from))
            }
            Poll::Ready(Err(e)) => Poll::Ready(Err(e)),
            Poll::Pending => Poll::Pending,
        }
    }
    pub fn set_broadcast(&self, _on: bool) -> io::Result<()> {
        Ok(())
    }
    pub fn set_ttl(&self, _ttl: u32) -> io::Result<()> {
        Ok(())
    }
    pub async fn readable(&self) -> io::Result<()> {
        Ok(())
    }
    pub async fn writable(&self) -> io::Result<()> {
        Ok(())
    }
}

impl AsRawFd for UdpSocket {
    fn as_raw_fd(&self) -> RawFd {
        token_udp_fd()
    }
}

impl Drop for UdpSocket {
    fn drop(&mut self) {
        if sim::is_started() {
            udp::close(&self.st);
        }
    }
}

// keep the unused-import lints quiet for items only used on some paths
#[allow(dead_code)]
fn _unused(_: Arc<()>, _: Backend, _: Pin<Box<dyn Future<Output = ()>>>) {}
