//! `tokio::signal` stub: signals are raised by the plan at chosen virtual times.

pub mod unix {
    use crate::sim;
    use std::io;

    #[derive(Debug, Clone, Copy, PartialEq, Eq)]
    pub struct SignalKind(i32);

    impl SignalKind {
        pub fn from_raw(s: i32) -> Self {
            SignalKind(s)
        }
        pub fn as_raw_value(&self) -> i32 {
            self.0
        }
        pub fn user_defined1() -> Self {
            SignalKind(libc::SIGUSR1)
        }
        pub fn user_defined2() -> Self {
            SignalKind(libc::SIGUSR2)
        }
        pub fn hangup() -> Self {
            SignalKind(libc::SIGHUP)
        }
        pub fn interrupt() -> Self {
            SignalKind(libc::SIGINT)
        }
        pub fn terminate() -> Self {
            SignalKind(libc::SIGTERM)
        }
        pub fn quit() -> Self {
            SignalKind(libc::SIGQUIT)
        }
    }

    #[derive(Debug)]
    pub struct Signal {
        rx: real_tokio::sync::mpsc::UnboundedReceiver<()>,
    }

    pub fn signal(kind: SignalKind) -> io::Result<Signal> {
        let (tx, rx) = real_tokio::sync::mpsc::unbounded_channel();
        sim::with(|w| w.signal_tx.push((kind.0, tx)));
        Ok(Signal { rx })
    }

    impl Signal {
        pub async fn recv(&mut self) -> Option<()> {
            self.rx.recv().await
        }
    }
}

pub async fn ctrl_c() -> std::io::Result<()> {
    std::future::pending::<()>().await;
    Ok(())
}
