//! Facade over quinn 0.9: `Endpoint::{server,client}` build a real quinn endpoint on a
//! simulated UDP socket (`new_with_abstract_socket`); quinn, quinn-proto and rustls run
//! unmodified on top of it.

pub use real_quinn::*;

use std::io::{self, IoSliceMut};
use std::net::SocketAddr;
use std::ops::{Deref, DerefMut};
use std::task::{Context, Poll};

#[derive(Debug)]
pub struct SimUdp {
    sock: tokio::net::UdpSocket,
}

impl SimUdp {
    pub fn new(sock: tokio::net::UdpSocket) -> Self {
        SimUdp { sock }
    }
}

impl real_quinn::AsyncUdpSocket for SimUdp {
    fn poll_send(
        &mut self,
        _state: &quinn_udp::UdpState,
        _cx: &mut Context,
        transmits: &[quinn_proto::Transmit],
    ) -> Poll<Result<usize, io::Error>> {
        let mut n = 0;
        for t in transmits {
            let seg = t.segment_size.unwrap_or(t.contents.len()).max(1);
            for chunk in t.contents.chunks(seg) {
                // a send error on one datagram is not fatal for QUIC
                let _ = self.sock.try_send_to(chunk, t.destination);
            }
            n += 1;
        }
        Poll::Ready(Ok(n))
    }

    fn poll_recv(
        &self,
        cx: &mut Context,
        bufs: &mut [IoSliceMut<'_>],
        meta: &mut [quinn_udp::RecvMeta],
    ) -> Poll<io::Result<usize>> {
        let mut i = 0;
        while i < bufs.len() && i < meta.len() {
            match self.sock.poll_recv_dgram(cx) {
                Poll::Ready(Ok((data, from, to))) => {
                    let n = data.len().min(bufs[i].len());
                    bufs[i][..n].copy_from_slice(&data[..n]);
                    meta[i] = quinn_udp::RecvMeta {
                        addr: from,
                        len: n,
                        stride: n,
                        ecn: None,
                        dst_ip: Some(to.ip()),
                    };
                    i += 1;
                }
                Poll::Ready(Err(e)) => {
                    if i > 0 {
                        break;
                    }
                    // ICMP errors are not fatal for a QUIC endpoint; quinn-udp ignores them too
                    if e.kind() == io::ErrorKind::ConnectionRefused || e.kind() == io::ErrorKind::ConnectionReset {
                        continue;
                    }
                    return Poll::Ready(Err(e));
                }
                Poll::Pending => {
                    if i > 0 {
                        break;
                    }
                    return Poll::Pending;
                }
            }
        }
        Poll::Ready(Ok(i))
    }

    fn local_addr(&self) -> io::Result<SocketAddr> {
        self.sock.local_addr()
    }
}

/// Harness: a real quinn endpoint on an already bound simulated socket.
pub fn sim_endpoint(server: Option<ServerConfig>, sock: tokio::net::UdpSocket) -> io::Result<real_quinn::Endpoint> {
    real_quinn::Endpoint::new_with_abstract_socket(EndpointConfig::default(), server, SimUdp::new(sock), TokioRuntime)
}

#[derive(Debug, Clone)]
pub struct Endpoint(real_quinn::Endpoint);

impl Endpoint {
    pub fn client(addr: SocketAddr) -> io::Result<Self> {
        let sock = tokio::net::UdpSocket::sim_bind_proxy(addr)?;
        Ok(Endpoint(sim_endpoint(None, sock)?))
    }
    pub fn server(config: ServerConfig, addr: SocketAddr) -> io::Result<Self> {
        let sock = tokio::net::UdpSocket::sim_bind_proxy(addr)?;
        Ok(Endpoint(sim_endpoint(Some(config), sock)?))
    }
}

impl Deref for Endpoint {
    type Target = real_quinn::Endpoint;
    fn deref(&self) -> &Self::Target {
        &self.0
    }
}
impl DerefMut for Endpoint {
    fn deref_mut(&mut self) -> &mut Self::Target {
        &mut self.0
    }
}
