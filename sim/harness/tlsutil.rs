//! rustls configurations for harness-side actors (test PKI under /verif/sim/pki).

use super::actors::{TlsClientCfg, TlsServerCfg};
use std::convert::TryFrom;
use std::sync::Arc;
use std::time::SystemTime;
use tokio_rustls::rustls::{self, Certificate, PrivateKey, RootCertStore, ServerName};
use tokio_rustls::{TlsAcceptor, TlsConnector};

pub fn load_certs(path: &str) -> Result<Vec<Certificate>, String> {
    let f = std::fs::File::open(path).map_err(|e| format!("{}: {}", path, e))?;
    let mut r = std::io::BufReader::new(f);
    rustls_pemfile::certs(&mut r)
        .map(|v| v.into_iter().map(Certificate).collect())
        .map_err(|e| format!("{}: {}", path, e))
}

pub fn load_key(path: &str) -> Result<PrivateKey, String> {
    let f = std::fs::File::open(path).map_err(|e| format!("{}: {}", path, e))?;
    let mut r = std::io::BufReader::new(f);
    loop {
        match rustls_pemfile::read_one(&mut r).map_err(|e| format!("{}: {}", path, e))? {
            Some(rustls_pemfile::Item::RSAKey(k)) | Some(rustls_pemfile::Item::PKCS8Key(k)) | Some(rustls_pemfile::Item::ECKey(k)) => {
                return Ok(PrivateKey(k))
            }
            Some(_) => continue,
            None => return Err(format!("{}: no key", path)),
        }
    }
}

struct NoVerify;
impl rustls::client::ServerCertVerifier for NoVerify {
    fn verify_server_cert(
        &self,
        _end_entity: &Certificate,
        _intermediates: &[Certificate],
        _server_name: &ServerName,
        _scts: &mut dyn Iterator<Item = &[u8]>,
        _ocsp_response: &[u8],
        _now: SystemTime,
    ) -> Result<rustls::client::ServerCertVerified, rustls::Error> {
        Ok(rustls::client::ServerCertVerified::assertion())
    }
}

pub fn client_config(t: &TlsClientCfg) -> Result<rustls::ClientConfig, String> {
    let mut roots = RootCertStore::empty();
    if let Some(ca) = &t.ca {
        for c in load_certs(ca)? {
            roots.add(&c).map_err(|e| e.to_string())?;
        }
    }
    let b = rustls::ClientConfig::builder().with_safe_defaults().with_root_certificates(roots);
    let mut cfg = match (&t.cert, &t.key) {
        (Some(c), Some(k)) => b.with_single_cert(load_certs(c)?, load_key(k)?).map_err(|e| e.to_string())?,
        _ => b.with_no_client_auth(),
    };
    if t.insecure {
        cfg.dangerous().set_certificate_verifier(Arc::new(NoVerify));
    }
    cfg.alpn_protocols = t.alpn.iter().map(|a| a.as_bytes().to_vec()).collect();
    Ok(cfg)
}

pub async fn client_connect(
    t: &TlsClientCfg,
    tcp: tokio::net::TcpStream,
) -> Result<tokio_rustls::client::TlsStream<tokio::net::TcpStream>, String> {
    let cfg = client_config(t)?;
    let name = ServerName::try_from(if t.sni.is_empty() { "proxy.sim" } else { t.sni.as_str() }).map_err(|e| e.to_string())?;
    TlsConnector::from(Arc::new(cfg)).connect(name, tcp).await.map_err(|e| e.to_string())
}

pub fn server_config(t: &TlsServerCfg) -> Result<rustls::ServerConfig, String> {
    let verifier: Arc<dyn rustls::server::ClientCertVerifier> = match &t.client_ca {
        Some(ca) => {
            let mut roots = RootCertStore::empty();
            for c in load_certs(ca)? {
                roots.add(&c).map_err(|e| e.to_string())?;
            }
            if t.client_required {
                rustls::server::AllowAnyAuthenticatedClient::new(roots)
            } else {
                rustls::server::AllowAnyAnonymousOrAuthenticatedClient::new(roots)
            }
        }
        None => rustls::server::NoClientAuth::new(),
    };
    let mut cfg = rustls::ServerConfig::builder()
        .with_safe_defaults()
        .with_client_cert_verifier(verifier)
        .with_single_cert(load_certs(&t.cert)?, load_key(&t.key)?)
        .map_err(|e| e.to_string())?;
    cfg.alpn_protocols = t.alpn.iter().map(|a| a.as_bytes().to_vec()).collect();
    Ok(cfg)
}

pub fn server_acceptor(t: &TlsServerCfg) -> Result<TlsAcceptor, String> {
    Ok(TlsAcceptor::from(Arc::new(server_config(t)?)))
}
