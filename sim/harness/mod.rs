//! Deterministic-simulation harness for redproxy-rs, compiled *into* the binary crate through
//! the guarded hook in `src/main.rs` (`--cfg redproxy_verif`).
//!
//! `boot()` runs as the first statement of the real `main()`: it loads the plan named by
//! `SIM_PLAN`, starts the simulated world (network, clock, files, DNS, external commands),
//! spawns the scripted actors and lets `main()` continue — so the proxy's own start-up
//! wiring, listeners, connectors, rules, registry, GC and API all run for real.
//! When the actors are done the director writes one JSON result to `SIM_OUT` and exits.
#![allow(dead_code)]

use serde::Deserialize;
use serde_json::{json, Value};
use std::collections::BTreeMap;
use std::net::{IpAddr, SocketAddr};
use std::sync::{Arc, Mutex};
use std::time::Duration;
use tokio::sim;

pub mod actors;
pub mod component;
pub mod quic;
pub mod tlsutil;

// ---------------------------------------------------------------------------------------
// plan

fn d_true() -> bool {
    true
}
fn d_max_ms() -> u64 {
    60_000
}
fn d_timeout() -> u64 {
    30_000
}

#[derive(Deserialize, Debug, Clone, Default)]
pub struct ChaosCfg {
    #[serde(default)]
    pub delay_min_us: u64,
    #[serde(default)]
    pub delay_max_us: u64,
    #[serde(default)]
    pub short_write: u32,
    #[serde(default)]
    pub short_read: u32,
    #[serde(default)]
    pub pending: u32,
    #[serde(default)]
    pub capacity: usize,
    #[serde(default)]
    pub udp_loss: u32,
    #[serde(default)]
    pub udp_dup: u32,
    #[serde(default)]
    pub udp_reorder: bool,
    #[serde(default)]
    pub glue: u32,
}

impl ChaosCfg {
    pub fn to_sim(&self) -> sim::Chaos {
        sim::Chaos {
            delay_min_us: self.delay_min_us,
            delay_max_us: self.delay_max_us,
            short_write: self.short_write,
            short_read: self.short_read,
            pending: self.pending,
            capacity: self.capacity,
            udp_loss: self.udp_loss,
            udp_dup: self.udp_dup,
            udp_reorder: self.udp_reorder,
            glue: self.glue,
        }
    }
}

#[derive(Deserialize, Debug, Clone, Default)]
pub struct NetCfg {
    #[serde(default)]
    pub backend: String, // "mem" (default) | "kernel"
    #[serde(default)]
    pub chaos: ChaosCfg,
    #[serde(default)]
    pub spawn_yield: u32,
    #[serde(default)]
    pub lock_yield: u32,
    #[serde(default)]
    pub api_buf: usize,
    #[serde(default)]
    pub udp_port_reuse: u32,
    #[serde(default)]
    pub udp_icmp: bool,
}

#[derive(Deserialize, Debug, Clone)]
pub struct CmdRule {
    /// argv must equal this exactly
    pub argv: Vec<String>,
    #[serde(default)]
    pub exit: i32,
    #[serde(default)]
    pub latency_ms: u64,
    #[serde(default)]
    pub spawn_fail: bool,
    /// the rule only applies in [from_ms, until_ms) of virtual time (0 = unbounded)
    #[serde(default)]
    pub from_ms: u64,
    #[serde(default)]
    pub until_ms: u64,
}

#[derive(Deserialize, Debug, Clone)]
pub struct Fault {
    pub at_ms: u64,
    pub kind: String, // stall | heal | unreachable | reachable | reset_host | signal | udp_error | set | kill_actor
    #[serde(default)]
    pub ip: Option<String>,
    #[serde(default)]
    pub sig: Option<i32>,
    #[serde(default)]
    pub port: Option<u16>,
    #[serde(default)]
    pub flag: Option<String>,
    #[serde(default)]
    pub errno: Option<i32>,
    /// clock_step: milliseconds the wall clock jumps by (negative = backwards)
    #[serde(default)]
    pub ms: Option<i64>,
    /// fd_limit: number of descriptors the process may hold from now on (0 = lift the limit again)
    #[serde(default)]
    pub n: Option<u64>,
}

/// Descriptor exhaustion as a fault: lower (or restore) the soft RLIMIT_NOFILE of this process. Every descriptor
/// is allocated by this single-threaded process in a deterministic order, so the failing call is the same in every run.
pub fn set_fd_limit(n: u64) {
    unsafe {
        let mut r: libc::rlimit = std::mem::zeroed();
        if libc::getrlimit(libc::RLIMIT_NOFILE, &mut r) == 0 {
            r.rlim_cur = if n == 0 { r.rlim_max } else { n.min(r.rlim_max) };
            libc::setrlimit(libc::RLIMIT_NOFILE, &r);
        }
    }
}

#[derive(Deserialize, Debug, Clone)]
pub struct Plan {
    #[serde(default)]
    pub seed: u64,
    #[serde(default)]
    pub lane: String,
    #[serde(default)]
    pub net: NetCfg,
    #[serde(default)]
    pub files: BTreeMap<String, String>,
    #[serde(default)]
    pub dns: BTreeMap<String, Vec<String>>,
    #[serde(default)]
    pub cmds: Vec<CmdRule>,
    #[serde(default)]
    pub cmd_default_exit: Option<i32>,
    #[serde(default)]
    pub actors: Vec<actors::Actor>,
    #[serde(default)]
    pub faults: Vec<Fault>,
    #[serde(default = "d_max_ms")]
    pub max_ms: u64,
    #[serde(default)]
    pub settle_ms: u64,
    #[serde(default = "d_true")]
    pub want_events: bool,
    #[serde(default)]
    pub dump_files: Vec<String>,
    #[serde(default)]
    pub component: Option<Value>,
    /// virtual ms after which the harness checks that main() has bound its listeners
    #[serde(default)]
    pub expect_listeners: Vec<String>,
}

// ---------------------------------------------------------------------------------------
// shared run state

pub struct Shared {
    pub records: Mutex<Vec<Value>>,
    pub flags: Mutex<BTreeMap<String, u64>>,
    pub flag_notify: tokio::sync::Notify,
    pub panics: Mutex<Vec<Value>>,
    pub busy: Mutex<i64>,
    pub busy_notify: tokio::sync::Notify,
}

impl Shared {
    pub fn record(&self, v: Value) {
        self.records.lock().unwrap().push(v);
    }
    pub fn set_flag(&self, name: &str) {
        let seq = sim::stamp();
        self.flags.lock().unwrap().entry(name.to_string()).or_insert(seq);
        self.flag_notify.notify_waiters();
    }
    pub fn has_flag(&self, name: &str) -> bool {
        self.flags.lock().unwrap().contains_key(name)
    }
    pub async fn wait_flag(&self, name: &str) {
        loop {
            let n = self.flag_notify.notified();
            if self.has_flag(name) {
                return;
            }
            n.await;
        }
    }
    pub fn busy_add(&self, d: i64) {
        *self.busy.lock().unwrap() += d;
        self.busy_notify.notify_waiters();
    }
}

static SHARED: std::sync::OnceLock<Arc<Shared>> = std::sync::OnceLock::new();

pub fn shared() -> Arc<Shared> {
    SHARED
        .get_or_init(|| {
            Arc::new(Shared {
                records: Mutex::new(Vec::new()),
                flags: Mutex::new(BTreeMap::new()),
                flag_notify: tokio::sync::Notify::new(),
                panics: Mutex::new(Vec::new()),
                busy: Mutex::new(0),
                busy_notify: tokio::sync::Notify::new(),
            })
        })
        .clone()
}

fn fail(msg: String) -> ! {
    eprintln!("@@HARNESS-ERROR {}", msg);
    std::process::exit(2);
}

fn install_panic_hook() {
    let sh = shared();
    std::panic::set_hook(Box::new(move |info| {
        let loc = info.location().map(|l| format!("{}:{}:{}", l.file(), l.line(), l.column())).unwrap_or_default();
        let msg = if let Some(s) = info.payload().downcast_ref::<&str>() {
            s.to_string()
        } else if let Some(s) = info.payload().downcast_ref::<String>() {
            s.clone()
        } else {
            "<non-string panic>".to_string()
        };
        eprintln!("@@PANIC at {} : {}", loc, msg.replace('\n', " "));
        let t = sim::now_us();
        if let Ok(mut p) = sh.panics.try_lock() {
            p.push(json!({"loc": loc, "msg": msg, "t_us": t}));
        }
    }));
}

// ---------------------------------------------------------------------------------------
// boot

pub async fn boot() -> Option<i32> {
    let path = match std::env::var("SIM_PLAN") {
        Ok(p) => p,
        Err(_) => fail("SIM_PLAN not set".into()),
    };
    let text = match std::fs::read_to_string(&path) {
        Ok(t) => t,
        Err(e) => fail(format!("cannot read plan {}: {}", path, e)),
    };
    let plan: Plan = match serde_json::from_str(&text) {
        Ok(p) => p,
        Err(e) => fail(format!("cannot parse plan {}: {}", path, e)),
    };
    let env_seed = std::env::var("SIM_SEED").ok().and_then(|s| s.parse::<u64>().ok()).unwrap_or(0);
    if env_seed != plan.seed {
        fail(format!("SIM_SEED ({}) must equal plan.seed ({})", env_seed, plan.seed));
    }
    let cfg = sim::Config {
        seed: plan.seed,
        backend: if plan.net.backend == "kernel" { sim::Backend::Kernel } else { sim::Backend::Mem },
        chaos: plan.net.chaos.to_sim(),
        spawn_yield: plan.net.spawn_yield,
        lock_yield: plan.net.lock_yield,
        api_buf: plan.net.api_buf,
        udp_port_reuse: plan.net.udp_port_reuse,
        udp_icmp: plan.net.udp_icmp,
        ..Default::default()
    };
    sim::start(cfg);
    sim::set_keep_events(plan.want_events);
    install_panic_hook();
    for (p, c) in plan.files.iter() {
        let data = if let Some(h) = c.strip_prefix("hex:") { actors::unhex(h) } else { c.as_bytes().to_vec() };
        sim::set_file(p, data);
    }
    for (name, addrs) in plan.dns.iter() {
        let ips: Vec<IpAddr> = addrs.iter().filter_map(|a| a.parse().ok()).collect();
        if ips.is_empty() {
            sim::set_dns(name, sim::DnsAnswer::NxDomain);
        } else {
            sim::set_dns(name, sim::DnsAnswer::Addrs(ips));
        }
    }
    {
        let rules = plan.cmds.clone();
        let def = plan.cmd_default_exit;
        sim::set_cmd_handler(Box::new(move |argv: &[String]| {
            let now_ms = sim::clock::elapsed_us() / 1000;
            for r in rules.iter() {
                if r.argv == argv && now_ms >= r.from_ms && (r.until_ms == 0 || now_ms < r.until_ms) {
                    return sim::CmdOutcome { spawn_fail: r.spawn_fail, exit_code: r.exit, latency_ms: r.latency_ms };
                }
            }
            match def {
                Some(c) => sim::CmdOutcome { spawn_fail: false, exit_code: c, latency_ms: 0 },
                None => sim::CmdOutcome { spawn_fail: true, exit_code: 127, latency_ms: 0 },
            }
        }));
    }
    if plan.lane == "component" {
        let out = component::run(&plan).await;
        write_result(&plan, out);
        return Some(0);
    }
    tokio::spawn(director(plan));
    None
}

/// DNS seam for `DnsConfig::lookup_host` (trust-dns is bypassed).
pub async fn dns(
    host: &str,
    port: u16,
    family: crate::common::dns::AddressFamily,
) -> Option<Result<SocketAddr, easy_error::Error>> {
    use crate::common::dns::AddressFamily as F;
    let ans = tokio::net::sim_dns_lookup(host);
    let ips: Vec<IpAddr> = match ans {
        Some(sim::DnsAnswer::Addrs(v)) => v,
        Some(sim::DnsAnswer::Delayed(ms, v)) => {
            tokio::time::sleep(Duration::from_millis(ms)).await;
            v
        }
        _ => Vec::new(),
    };
    let v4: Vec<IpAddr> = ips.iter().cloned().filter(|a| a.is_ipv4()).collect();
    let v6: Vec<IpAddr> = ips.iter().cloned().filter(|a| a.is_ipv6()).collect();
    let pick = match family {
        F::V4Only => v4.first().cloned(),
        F::V6Only => v6.first().cloned(),
        F::V4First => v4.first().cloned().or(v6.first().cloned()),
        F::V6First => v6.first().cloned().or(v4.first().cloned()),
    };
    Some(match pick {
        Some(ip) => Ok(SocketAddr::new(ip, port)),
        None => Err(easy_error::err_msg(format!("No address found for {}", host))),
    })
}

async fn run_faults(faults: Vec<Fault>) {
    let sh = shared();
    let mut faults = faults;
    faults.sort_by_key(|f| f.at_ms);
    for f in faults {
        let now = sim::now_us() / 1000;
        if f.at_ms > now {
            tokio::time::sleep(Duration::from_millis(f.at_ms - now)).await;
        }
        let ip: Option<IpAddr> = f.ip.as_ref().and_then(|s| s.parse().ok());
        sim::count("fault_fired");
        match f.kind.as_str() {
            "stall" => {
                if let Some(ip) = ip {
                    sim::set_stalled(ip, true)
                }
            }
            "heal" => {
                if let Some(ip) = ip {
                    sim::set_stalled(ip, false)
                }
            }
            "unreachable" => {
                if let Some(ip) = ip {
                    sim::set_unreachable(ip, true)
                }
            }
            "reachable" => {
                if let Some(ip) = ip {
                    sim::set_unreachable(ip, false)
                }
            }
            "mute" => {
                if let Some(ip) = ip {
                    sim::set_muted(ip, true)
                }
            }
            "unmute" => {
                if let Some(ip) = ip {
                    sim::set_muted(ip, false)
                }
            }
            "fd_limit" => set_fd_limit(f.n.unwrap_or(0)),
            "clock_step" => sim::step_wall_clock(f.ms.unwrap_or(0)),
            "accept_error" => sim::inject_accept_error(f.port.unwrap_or(0), f.errno.unwrap_or(libc::ECONNABORTED)),
            "reset_host" => {
                if let Some(ip) = ip {
                    sim::reset_conns_of(ip);
                }
            }
            "signal" => sim::raise_signal(f.sig.unwrap_or(libc::SIGUSR1)),
            "udp_error" => {
                sim::udp_inject_error(f.port.unwrap_or(0), true, f.errno.unwrap_or(libc::ECONNREFUSED));
            }
            "set" => {
                if let Some(fl) = f.flag.as_ref() {
                    sh.set_flag(fl)
                }
            }
            _ => {}
        }
        sh.record(json!({"fault": f.kind, "t_us": sim::now_us(), "seq": sim::stamp(), "ip": f.ip, "flag": f.flag}));
    }
}

async fn director(plan: Plan) {
    let sh = shared();
    // let main() finish its start-up first: it runs without consuming virtual time
    tokio::time::sleep(Duration::from_millis(1)).await;
    let bound: Vec<String> = sim::proxy_listeners().iter().map(|a| a.to_string()).collect();
    sh.record(json!({"boot": {"listeners": bound, "t_us": sim::now_us()}}));
    let mut fg = Vec::new();
    for (idx, a) in plan.actors.iter().cloned().enumerate() {
        let foreground = a.is_foreground();
        let h = tokio::spawn(actors::run_actor(idx, a, sh.clone()));
        if foreground {
            fg.push(h);
        }
    }
    tokio::spawn(run_faults(plan.faults.clone()));
    let deadline = tokio::time::Instant::now() + Duration::from_millis(plan.max_ms);
    let all = async {
        for h in fg {
            let _ = h.await;
        }
        // wait until server-side connection scripts that already started are done
        loop {
            let n = sh.busy_notify.notified();
            if *sh.busy.lock().unwrap() <= 0 {
                break;
            }
            n.await;
        }
    };
    let timed_out = tokio::select! {
        _ = all => false,
        _ = tokio::time::sleep_until(deadline) => true,
    };
    if plan.settle_ms > 0 {
        tokio::time::sleep(Duration::from_millis(plan.settle_ms)).await;
    }
    let out = json!({"timed_out": timed_out});
    write_result(&plan, out);
    std::process::exit(0);
}

fn write_result(plan: &Plan, extra: Value) {
    set_fd_limit(0);
    let sh = shared();
    let events: Vec<Value> = if plan.want_events {
        sim::take_events()
            .into_iter()
            .take(400_000)
            .map(|e| json!([e.seq, e.t_us, e.kind, e.id, e.n, e.s]))
            .collect()
    } else {
        Vec::new()
    };
    let mut files = serde_json::Map::new();
    for f in plan.dump_files.iter() {
        if let Some(d) = sim::get_file(f) {
            files.insert(f.clone(), Value::String(String::from_utf8_lossy(&d).to_string()));
        }
    }
    let counters: serde_json::Map<String, Value> = sim::counters().into_iter().map(|(k, v)| (k.to_string(), json!(v))).collect();
    let conns: Vec<Value> = sim::live_conns()
        .into_iter()
        .map(|c| {
            json!({"id": c.id, "label": c.label, "a": c.addr[0].to_string(), "b": c.addr[1].to_string(), "rst": c.rst,
                   "written": c.written, "read": c.read, "fin": c.fin_queued, "alive": c.ends_alive})
        })
        .collect();
    let blocked = {
        let (n, us, max) = sim::clock::blocked_sleeps();
        json!({"calls": n, "us": us, "max_us": max})
    };
    let out = json!({
        "seed": plan.seed,
        "end_us": sim::now_us(),
        "log_hash": format!("{:016x}", sim::log_hash()),
        "shape_hash": format!("{:016x}", sim::shape_hash()),
        "records": *sh.records.lock().unwrap(),
        "panics": *sh.panics.lock().unwrap(),
        "harness_error": sim::harness_error(),
        "counters": counters,
        "events": events,
        "files": files,
        "open_conns": conns,
        "proxy_listeners": sim::proxy_listeners().iter().map(|a| a.to_string()).collect::<Vec<_>>(),
        "entropy_bytes": sim::clock::entropy_bytes_served(),
        "blocked_sleeps": blocked,
        "extra": extra,
    });
    let text = serde_json::to_string(&out).unwrap();
    match std::env::var("SIM_OUT") {
        Ok(p) => {
            if let Err(e) = std::fs::write(&p, text) {
                fail(format!("cannot write {}: {}", p, e));
            }
        }
        Err(_) => println!("@@SIMRESULT {}", text),
    }
}
