//! QUIC actors (real quinn endpoints on the simulated network). Filled in below.

use super::actors::{self, BoxStream, ConnCtx, Op, TlsClientCfg, TlsServerCfg};
use super::{tlsutil, Shared};
use serde::Deserialize;
use serde_json::json;
use std::net::SocketAddr;
use std::sync::Arc;
use tokio::sim;

#[derive(Deserialize, Clone, Debug)]
pub struct QuicClient {
    pub id: String,
    pub bind: String,
    pub dst: String,
    pub tls: TlsClientCfg,
    #[serde(default)]
    pub start_ms: u64,
    #[serde(default)]
    pub start_flag: Option<String>,
    #[serde(default)]
    pub background: bool,
    /// connection level ops: open_bi {ops, spawn}, send_datagram {data}, sleep, wait, set, close
    #[serde(default)]
    pub ops: Vec<Op>,
    /// datagram_receive_buffer_size of this endpoint = the max_datagram_frame_size it advertises (0 = quinn's default)
    #[serde(default)]
    pub dgram_buf: usize,
}

#[derive(Deserialize, Clone, Debug)]
pub struct QuicServer {
    pub id: String,
    pub bind: String,
    pub tls: TlsServerCfg,
    #[serde(default)]
    pub start_ms: u64,
    #[serde(default)]
    pub start_flag: Option<String>,
    #[serde(default)]
    pub stop_flag: Option<String>,
    /// scripts for accepted bi-streams, in accept order (over all connections)
    #[serde(default)]
    pub streams: Vec<Vec<Op>>,
    #[serde(default)]
    pub default_ops: Option<Vec<Op>>,
    /// echo every QUIC datagram back (after swapping nothing): used for datagram-channel tests
    #[serde(default)]
    pub echo_datagrams: bool,
    /// datagram_receive_buffer_size of this endpoint = the max_datagram_frame_size it advertises (0 = quinn's default)
    #[serde(default)]
    pub dgram_buf: usize,
}

pin_project_lite::pin_project! {
    pub struct BiStream {
        #[pin]
        pub r: quinn::RecvStream,
        #[pin]
        pub w: quinn::SendStream,
    }
}
impl tokio::io::AsyncRead for BiStream {
    fn poll_read(self: std::pin::Pin<&mut Self>, cx: &mut std::task::Context<'_>, buf: &mut tokio::io::ReadBuf<'_>) -> std::task::Poll<std::io::Result<()>> {
        tokio::io::AsyncRead::poll_read(self.project().r, cx, buf)
    }
}
impl tokio::io::AsyncWrite for BiStream {
    fn poll_write(self: std::pin::Pin<&mut Self>, cx: &mut std::task::Context<'_>, buf: &[u8]) -> std::task::Poll<std::io::Result<usize>> {
        tokio::io::AsyncWrite::poll_write(self.project().w, cx, buf)
    }
    fn poll_flush(self: std::pin::Pin<&mut Self>, cx: &mut std::task::Context<'_>) -> std::task::Poll<std::io::Result<()>> {
        tokio::io::AsyncWrite::poll_flush(self.project().w, cx)
    }
    fn poll_shutdown(self: std::pin::Pin<&mut Self>, cx: &mut std::task::Context<'_>) -> std::task::Poll<std::io::Result<()>> {
        tokio::io::AsyncWrite::poll_shutdown(self.project().w, cx)
    }
}

fn transport(dgram_buf: usize) -> quinn::TransportConfig {
    let mut t = quinn::TransportConfig::default();
    if dgram_buf > 0 {
        t.datagram_receive_buffer_size(Some(dgram_buf));
    }
    t.max_concurrent_uni_streams(0u8.into());
    // same idle policy as the repository's own QUIC endpoints
    t.max_idle_timeout(Some(std::time::Duration::from_secs(3600).try_into().unwrap()));
    t.keep_alive_interval(Some(std::time::Duration::from_secs(30)));
    t
}

fn dgram_rec(actor: &str, dir: &str, data: &[u8]) -> serde_json::Value {
    let mut h = actors::Fnv::new();
    h.update(data);
    let keep = if data.len() <= 512 { data.len() } else { 96 };
    json!({"actor": actor, "qdgram": dir, "len": data.len(), "hash": h.hex(), "hex": actors::hex(&data[..keep]), "t": sim::now_us(), "s": sim::stamp()})
}

pub async fn run_client(_idx: usize, c: QuicClient, sh: Arc<Shared>) {
    actors::start_gate(c.start_ms, &c.start_flag, &sh).await;
    let bind: SocketAddr = actors::parse_addr(&c.bind);
    let dst: SocketAddr = actors::parse_addr(&c.dst);
    let mut tls = c.tls.clone();
    if tls.alpn.is_empty() {
        tls.alpn = vec!["h11c".into()];
    }
    let crypto = match tlsutil::client_config(&tls) {
        Ok(c) => c,
        Err(e) => {
            sh.record(json!({"actor": c.id, "connect": format!("cfgerr:{}", e)}));
            return;
        }
    };
    let mut ccfg = quinn::ClientConfig::new(Arc::new(crypto));
    ccfg.transport_config(Arc::new(transport(c.dgram_buf)));
    let sock = match sim::udp_bind_at(bind) {
        Ok(s) => s,
        Err(e) => {
            sh.record(json!({"actor": c.id, "connect": format!("binderr:{:?}", e.kind())}));
            return;
        }
    };
    let mut ep = match quinn::sim_endpoint(None, sock) {
        Ok(e) => e,
        Err(e) => {
            sh.record(json!({"actor": c.id, "connect": format!("eperr:{:?}", e.kind())}));
            return;
        }
    };
    ep.set_default_client_config(ccfg);
    let t0 = sim::now_us();
    let s0 = sim::stamp();
    let sni = if tls.sni.is_empty() { "proxy.sim".to_string() } else { tls.sni.clone() };
    let conn = match ep.connect(dst, &sni) {
        Ok(c) => c.await,
        Err(e) => {
            sh.record(json!({"actor": c.id, "connect": format!("err:{}", e), "t0": t0, "s0": s0}));
            return;
        }
    };
    let conn = match conn {
        Ok(c) => c,
        Err(e) => {
            sh.record(json!({"actor": c.id, "connect": format!("err:{}", e), "t0": t0, "s0": s0, "t1": sim::now_us(), "s1": sim::stamp()}));
            return;
        }
    };
    sh.record(json!({"actor": c.id, "connect": "ok", "t0": t0, "s0": s0, "t1": sim::now_us(), "s1": sim::stamp(),
                     "max_datagram": conn.max_datagram_size()}));
    // datagram collector
    {
        let conn = conn.clone();
        let sh = sh.clone();
        let id = c.id.clone();
        tokio::spawn(async move {
            loop {
                match conn.read_datagram().await {
                    Ok(d) => sh.record(dgram_rec(&id, "recv", &d)),
                    Err(e) => {
                        sh.record(json!({"actor": id, "qdgram": "closed", "err": e.to_string(), "t": sim::now_us(), "s": sim::stamp()}));
                        return;
                    }
                }
            }
        });
    }
    let mut handles = Vec::new();
    let mut nstream = 0;
    for (k, op) in c.ops.iter().enumerate() {
        match op.op.as_str() {
            "open_bi" => {
                let name = format!("{}/s{}", c.id, nstream);
                nstream += 1;
                match conn.open_bi().await {
                    Ok((w, r)) => {
                        sh.record(json!({"actor": c.id, "conn": name, "open_bi": "ok", "t": sim::now_us(), "s": sim::stamp()}));
                        let stream: BoxStream = Box::new(BiStream { r, w });
                        let ctx = ConnCtx { actor: c.id.clone(), conn: name, sim_id: 0, sh: sh.clone() };
                        let ops = op.ops.clone();
                        if op.spawn {
                            handles.push(tokio::spawn(actors::run_script(ctx, stream, ops)));
                        } else {
                            actors::run_script(ctx, stream, ops).await;
                        }
                    }
                    Err(e) => sh.record(json!({"actor": c.id, "conn": name, "open_bi": format!("err:{}", e), "t": sim::now_us(), "s": sim::stamp()})),
                }
            }
            "send_datagram" => {
                let data = op.data();
                let res = conn.send_datagram(data.clone().into());
                let mut r = dgram_rec(&c.id, "send", &data);
                r["res"] = json!(match res {
                    Ok(()) => "ok".to_string(),
                    Err(e) => format!("err:{}", e),
                });
                sh.record(r);
            }
            "sleep" => tokio::time::sleep(std::time::Duration::from_millis(op.ms)).await,
            "wait" => {
                if let Some(f) = &op.flag {
                    let _ = tokio::time::timeout(std::time::Duration::from_millis(op.timeout_ms.unwrap_or(30_000)), sh.wait_flag(f)).await;
                }
            }
            "set" => {
                if let Some(f) = &op.flag {
                    sh.set_flag(f)
                }
            }
            "close" => conn.close(0u32.into(), b"bye"),
            other => sh.record(json!({"actor": c.id, "i": k, "badop": other})),
        }
    }
    for h in handles {
        let _ = h.await;
    }
    // keep the endpoint alive a little so that close frames are sent
    tokio::time::sleep(std::time::Duration::from_millis(5)).await;
    drop(ep);
}

pub async fn run_server(_idx: usize, s: QuicServer, sh: Arc<Shared>) {
    actors::start_gate(s.start_ms, &s.start_flag, &sh).await;
    let bind: SocketAddr = actors::parse_addr(&s.bind);
    let mut tls = s.tls.clone();
    if tls.alpn.is_empty() {
        tls.alpn = vec!["h11c".into()];
    }
    let crypto = match tlsutil::server_config(&tls) {
        Ok(c) => c,
        Err(e) => {
            sh.record(json!({"actor": s.id, "listen": format!("cfgerr:{}", e)}));
            return;
        }
    };
    let mut scfg = quinn::ServerConfig::with_crypto(Arc::new(crypto));
    scfg.transport = Arc::new(transport(s.dgram_buf));
    let sock = match sim::udp_bind_at(bind) {
        Ok(s) => s,
        Err(e) => {
            sh.record(json!({"actor": s.id, "listen": format!("binderr:{:?}", e.kind())}));
            return;
        }
    };
    let ep = match quinn::sim_endpoint(Some(scfg), sock) {
        Ok(e) => e,
        Err(e) => {
            sh.record(json!({"actor": s.id, "listen": format!("eperr:{:?}", e.kind())}));
            return;
        }
    };
    sh.record(json!({"actor": s.id, "listen": "ok", "t": sim::now_us(), "s": sim::stamp()}));
    let counter = Arc::new(std::sync::Mutex::new(0usize));
    loop {
        let incoming = if let Some(f) = &s.stop_flag {
            tokio::select! {
                a = ep.accept() => a,
                _ = sh.wait_flag(f) => None,
            }
        } else {
            ep.accept().await
        };
        let connecting = match incoming {
            Some(c) => c,
            None => {
                ep.close(0u32.into(), b"stop");
                sh.record(json!({"actor": s.id, "stopped": true, "t": sim::now_us(), "s": sim::stamp()}));
                drop(ep);
                return;
            }
        };
        let sh2 = sh.clone();
        let s2 = s.clone();
        let counter = counter.clone();
        tokio::spawn(async move {
            let conn = match connecting.await {
                Ok(c) => c,
                Err(e) => {
                    sh2.record(json!({"actor": s2.id, "qaccept": format!("err:{}", e), "t": sim::now_us(), "s": sim::stamp()}));
                    return;
                }
            };
            sh2.record(json!({"actor": s2.id, "qaccept": "ok", "peer": conn.remote_address().to_string(), "t": sim::now_us(), "s": sim::stamp()}));
            {
                let conn = conn.clone();
                let sh = sh2.clone();
                let id = s2.id.clone();
                let echo = s2.echo_datagrams;
                tokio::spawn(async move {
                    loop {
                        match conn.read_datagram().await {
                            Ok(d) => {
                                sh.record(dgram_rec(&id, "recv", &d));
                                if echo {
                                    let _ = conn.send_datagram(d);
                                }
                            }
                            Err(_) => return,
                        }
                    }
                });
            }
            loop {
                let (w, r) = match conn.accept_bi().await {
                    Ok(x) => x,
                    Err(_) => return,
                };
                let k = {
                    let mut g = counter.lock().unwrap();
                    let k = *g;
                    *g += 1;
                    k
                };
                let name = format!("{}#{}", s2.id, k);
                sh2.record(json!({"actor": s2.id, "conn": name, "accept": "ok", "peer": conn.remote_address().to_string(), "t": sim::now_us(), "s": sim::stamp()}));
                let ops = if k < s2.streams.len() { Some(s2.streams[k].clone()) } else { s2.default_ops.clone() };
                if let Some(ops) = ops {
                    let stream: BoxStream = Box::new(BiStream { r, w });
                    let ctx = ConnCtx { actor: s2.id.clone(), conn: name, sim_id: 0, sh: sh2.clone() };
                    let sh3 = sh2.clone();
                    sh3.busy_add(1);
                    tokio::spawn(async move {
                        actors::run_script(ctx, stream, ops).await;
                        sh3.busy_add(-1);
                    });
                }
            }
        });
    }
}
