//! Component lane: many scenarios per process against crate-internal components, under the
//! same virtual clock. The scenarios are explicit (generated and judged by the orchestrator);
//! this module only executes them against the real code and reports what came out.

use super::actors::{hex, unhex, Fnv, StreamGen};
use super::Plan;
use crate::common::fragment::Fragments;
use crate::common::frames::Frame;
use crate::context::TargetAddress;
use bytes::Bytes;
use serde_json::{json, Value};
use std::panic::{catch_unwind, AssertUnwindSafe};
use std::time::Duration;

fn mk_frame(f: &Value) -> Frame {
    let len = f["len"].as_u64().unwrap_or(0) as usize;
    let seed = f["seed"].as_u64().unwrap_or(1);
    let body = StreamGen::new(seed).take(len);
    let mut fr = Frame::from_body(Bytes::from(body));
    fr.session_id = f["sid"].as_u64().unwrap_or(0) as u32;
    fr.addr = match f["addr"].as_str() {
        None | Some("") => None,
        Some(a) => match a.parse::<std::net::SocketAddr>() {
            Ok(sa) => Some(TargetAddress::SocketAddr(sa)),
            Err(_) => {
                let (h, p) = a.rsplit_once(':').unwrap_or((a, "0"));
                Some(TargetAddress::DomainPort(h.to_string(), p.parse().unwrap_or(0)))
            }
        },
    };
    fr
}

fn describe(fr: &Frame) -> Value {
    let mut h = Fnv::new();
    h.update(&fr.body);
    json!({"sid": fr.session_id, "addr": fr.addr.as_ref().map(|a| a.to_string()), "len": fr.body.len(), "hash": h.hex()})
}

async fn fragment_scenario(sc: &Value) -> Value {
    let mtu = sc["mtu"].as_u64().unwrap_or(1200) as usize;
    let mut id = sc["start_id"].as_u64().unwrap_or(0) as u16;
    let frames: Vec<Value> = sc["frames"].as_array().cloned().unwrap_or_default();
    let mut frags: Vec<Vec<Bytes>> = Vec::new();
    let mut sent = Vec::new();
    let mut panics: Vec<Value> = Vec::new();
    for (k, f) in frames.iter().enumerate() {
        let fr = mk_frame(f);
        sent.push(describe(&fr));
        let r = catch_unwind(AssertUnwindSafe(|| Fragments::<Frame>::make_fragments(mtu, &mut id, fr).collect::<Vec<Bytes>>()));
        match r {
            Ok(v) => frags.push(v),
            Err(_) => {
                panics.push(json!({"where": "make_fragments", "frame": k}));
                frags.push(Vec::new());
            }
        }
    }
    let timeout = sc["timeout_s"].as_u64().unwrap_or(5);
    let mut f: Fragments<Frame> = Fragments::new(Duration::from_secs(timeout));
    let mut delivered = Vec::new();
    let mut since_tick_ms: u64 = 0;
    let events: Vec<Value> = sc["events"].as_array().cloned().unwrap_or_default();
    let mut bulk_ok = 0u64;
    for (k, ev) in events.iter().enumerate() {
        let kind = ev[0].as_str().unwrap_or("");
        match kind {
            "d" => {
                let (i, j) = (ev[1].as_u64().unwrap_or(0) as usize, ev[2].as_u64().unwrap_or(0) as usize);
                if let Some(b) = frags.get(i).and_then(|v| v.get(j)) {
                    let b = b.clone();
                    match catch_unwind(AssertUnwindSafe(|| f.reassemble(b))) {
                        Ok(Some(fr)) => {
                            let mut d = describe(&fr);
                            d["ev"] = json!(k);
                            delivered.push(d);
                        }
                        Ok(None) => {}
                        Err(_) => panics.push(json!({"where": "reassemble", "ev": k})),
                    }
                }
            }
            "raw" => {
                let b = Bytes::from(unhex(ev[1].as_str().unwrap_or("")));
                match catch_unwind(AssertUnwindSafe(|| f.reassemble(b))) {
                    Ok(Some(fr)) => {
                        let mut d = describe(&fr);
                        d["ev"] = json!(k);
                        d["from_raw"] = json!(true);
                        delivered.push(d);
                    }
                    Ok(None) => {}
                    Err(_) => panics.push(json!({"where": "reassemble-raw", "ev": k, "hex": ev[1]})),
                }
            }
            "sleep" => {
                // the receiving task ticks once per second (quic_frames_thread's interval)
                let mut ms = ev[1].as_u64().unwrap_or(0);
                while ms > 0 {
                    let step = ms.min(1000 - since_tick_ms);
                    tokio::time::sleep(Duration::from_millis(step)).await;
                    ms -= step;
                    since_tick_ms += step;
                    if since_tick_ms >= 1000 {
                        since_tick_ms = 0;
                        if catch_unwind(AssertUnwindSafe(|| f.timer())).is_err() {
                            panics.push(json!({"where": "timer", "ev": k}));
                        }
                    }
                }
            }
            "bulk" => {
                // n frames of `len` bytes sent and delivered in order, one after the other (id wrap-around)
                let n = ev[1].as_u64().unwrap_or(0);
                let len = ev[2].as_u64().unwrap_or(0) as usize;
                for q in 0..n {
                    let mut fr = Frame::from_body(Bytes::from(StreamGen::new(q + 7).take(len)));
                    fr.session_id = q as u32;
                    let want = describe(&fr);
                    let r = catch_unwind(AssertUnwindSafe(|| {
                        let parts: Vec<Bytes> = Fragments::<Frame>::make_fragments(mtu, &mut id, fr).collect();
                        let mut out = None;
                        for p in parts {
                            if let Some(x) = f.reassemble(p) {
                                out = Some(x);
                            }
                        }
                        out
                    }));
                    match r {
                        Ok(Some(x)) => {
                            if describe(&x) == want {
                                bulk_ok += 1;
                            } else {
                                delivered.push(json!({"ev": k, "bulk_mismatch": q, "got": describe(&x), "want": want}));
                            }
                        }
                        Ok(None) => delivered.push(json!({"ev": k, "bulk_missing": q, "id": id.wrapping_sub(1)})),
                        Err(_) => {
                            panics.push(json!({"where": "bulk", "ev": k, "q": q, "id": id}));
                            // the sender's counter may be stuck where it trapped: step over it so the run can go on
                            id = id.wrapping_add(1);
                        }
                    }
                }
            }
            _ => {}
        }
    }
    let counts: Vec<usize> = frags.iter().map(|v| v.len()).collect();
    let heads: Vec<String> = frags.iter().map(|v| v.first().map(|b| hex(&b[..b.len().min(4)])).unwrap_or_default()).collect();
    json!({"sent": sent, "fragment_counts": counts, "first_headers": heads, "delivered": delivered, "panics": panics, "bulk_ok": bulk_ok, "end_id": id})
}

pub async fn run(plan: &Plan) -> Value {
    let c = plan.component.clone().unwrap_or(Value::Null);
    let kind = c["kind"].as_str().unwrap_or("").to_string();
    let mut results = Vec::new();
    if kind == "fragments" {
        for sc in c["scenarios"].as_array().cloned().unwrap_or_default() {
            results.push(fragment_scenario(&sc).await);
        }
    }
    json!({"component": kind, "results": results})
}
