//! Component lane: many seeded runs per process against crate-internal components.

use super::Plan;
use serde_json::{json, Value};

pub async fn run(_plan: &Plan) -> Value {
    json!({"component": "none"})
}
