//! Scripted actors: TCP/TLS clients and servers, UDP peers. Each executes a list of ops
//! from the plan and records what it observed (bytes, EOF, errors, virtual time, global
//! sequence numbers). No protocol knowledge lives here beyond message *framing* helpers;
//! the oracles parse the recorded bytes with their own reference codecs.

use super::{quic, shared, tlsutil, ChaosCfg, Shared};
use serde::Deserialize;
use serde_json::{json, Value};
use std::net::{IpAddr, SocketAddr};
use std::sync::Arc;
use std::time::Duration;
use tokio::io::{AsyncRead, AsyncReadExt, AsyncWrite, AsyncWriteExt, ReadHalf, WriteHalf};
use tokio::sim;

pub trait Stream: AsyncRead + AsyncWrite + Unpin + Send {}
impl<T: AsyncRead + AsyncWrite + Unpin + Send> Stream for T {}
pub type BoxStream = Box<dyn Stream>;

pub fn unhex(s: &str) -> Vec<u8> {
    let b: Vec<u8> = s.bytes().filter(|c| c.is_ascii_hexdigit()).collect();
    b.chunks(2)
        .filter(|c| c.len() == 2)
        .map(|c| {
            let h = (c[0] as char).to_digit(16).unwrap() as u8;
            let l = (c[1] as char).to_digit(16).unwrap() as u8;
            (h << 4) | l
        })
        .collect()
}

pub fn hex(b: &[u8]) -> String {
    const H: &[u8; 16] = b"0123456789abcdef";
    let mut s = String::with_capacity(b.len() * 2);
    for x in b {
        s.push(H[(x >> 4) as usize] as char);
        s.push(H[(x & 15) as usize] as char);
    }
    s
}

pub struct Fnv(pub u64);
impl Fnv {
    pub fn new() -> Self {
        Fnv(0xcbf2_9ce4_8422_2325)
    }
    pub fn update(&mut self, b: &[u8]) {
        for x in b {
            self.0 ^= *x as u64;
            self.0 = self.0.wrapping_mul(0x0000_0100_0000_01b3);
        }
    }
    pub fn hex(&self) -> String {
        format!("{:016x}", self.0)
    }
}

/// Byte stream that is a pure function of its seed, independent of chunking.
pub struct StreamGen {
    rng: sim::Rng,
    word: [u8; 8],
    idx: usize,
}
impl StreamGen {
    pub fn new(seed: u64) -> Self {
        StreamGen { rng: sim::Rng::new(seed), word: [0; 8], idx: 8 }
    }
    pub fn next(&mut self) -> u8 {
        if self.idx == 8 {
            self.word = self.rng.next_u64().to_le_bytes();
            self.idx = 0;
        }
        let b = self.word[self.idx];
        self.idx += 1;
        b
    }
    pub fn take(&mut self, n: usize) -> Vec<u8> {
        (0..n).map(|_| self.next()).collect()
    }
}

#[derive(Deserialize, Clone, Debug, Default)]
pub struct Op {
    pub op: String,
    #[serde(default)]
    pub hex: Option<String>,
    #[serde(default)]
    pub text: Option<String>,
    /// [seed, len]: PRNG stream appended after hex/text
    #[serde(default)]
    pub fill: Option<(u64, u64)>,
    /// send: write the data in pieces of these sizes (rest in one piece), `gap_ms` apart
    #[serde(default)]
    pub cuts: Vec<usize>,
    #[serde(default)]
    pub gap_ms: u64,
    #[serde(default)]
    pub chunk: usize,
    #[serde(default)]
    pub n: usize,
    #[serde(default)]
    pub max: usize,
    #[serde(default)]
    pub ms: u64,
    #[serde(default)]
    pub flag: Option<String>,
    #[serde(default)]
    pub label: Option<String>,
    #[serde(default)]
    pub timeout_ms: Option<u64>,
    #[serde(default)]
    pub w: Vec<Op>,
    #[serde(default)]
    pub r: Vec<Op>,
    #[serde(default)]
    pub keep: Option<usize>,
    #[serde(default)]
    pub on_fail: Option<String>,
    #[serde(default)]
    pub to: Option<String>,
    #[serde(default)]
    pub ops: Vec<Op>,
    #[serde(default)]
    pub spawn: bool,
}

impl Op {
    pub fn literal(&self) -> Vec<u8> {
        let mut v = Vec::new();
        if let Some(h) = &self.hex {
            v.extend(unhex(h));
        }
        if let Some(t) = &self.text {
            v.extend(t.as_bytes());
        }
        v
    }
    pub fn data(&self) -> Vec<u8> {
        let mut v = self.literal();
        if let Some((seed, len)) = self.fill {
            v.extend(StreamGen::new(seed).take(len as usize));
        }
        v
    }
}

#[derive(Deserialize, Clone, Debug)]
pub struct TlsClientCfg {
    #[serde(default)]
    pub sni: String,
    #[serde(default)]
    pub ca: Option<String>,
    #[serde(default)]
    pub cert: Option<String>,
    #[serde(default)]
    pub key: Option<String>,
    #[serde(default)]
    pub insecure: bool,
    #[serde(default)]
    pub alpn: Vec<String>,
}

#[derive(Deserialize, Clone, Debug)]
pub struct TlsServerCfg {
    pub cert: String,
    pub key: String,
    #[serde(default)]
    pub client_ca: Option<String>,
    #[serde(default)]
    pub client_required: bool,
    #[serde(default)]
    pub alpn: Vec<String>,
}

#[derive(Deserialize, Clone, Debug)]
pub struct TcpClient {
    pub id: String,
    pub src: String,
    pub dst: String,
    /// TPROXY: the connection addressed to `dst` is diverted to the proxy's listener at this address
    #[serde(default)]
    pub via: Option<String>,
    #[serde(default)]
    pub start_ms: u64,
    #[serde(default)]
    pub start_flag: Option<String>,
    #[serde(default)]
    pub tls: Option<TlsClientCfg>,
    #[serde(default)]
    pub chaos: Option<ChaosCfg>,
    #[serde(default)]
    pub ops: Vec<Op>,
    #[serde(default)]
    pub background: bool,
}

#[derive(Deserialize, Clone, Debug)]
pub struct TcpServer {
    pub id: String,
    pub bind: String,
    #[serde(default)]
    pub start_ms: u64,
    #[serde(default)]
    pub start_flag: Option<String>,
    #[serde(default)]
    pub stop_flag: Option<String>,
    #[serde(default)]
    pub tls: Option<TlsServerCfg>,
    #[serde(default)]
    pub conns: Vec<Vec<Op>>,
    #[serde(default)]
    pub default_ops: Option<Vec<Op>>,
    /// delay between accept() and the start of the connection script
    #[serde(default)]
    pub accept_delay_ms: u64,
}

#[derive(Deserialize, Clone, Debug)]
pub struct UdpPeer {
    pub id: String,
    pub bind: String,
    #[serde(default)]
    pub start_ms: u64,
    #[serde(default)]
    pub ops: Vec<Op>,
    /// reply to every datagram with `echo_prefix_hex ++ payload` (origin behaviour)
    #[serde(default)]
    pub echo: bool,
    #[serde(default)]
    pub echo_prefix_hex: Option<String>,
    /// SOCKS5-UDP relay behaviour (fake upstream): strip the header, forward, wrap replies
    #[serde(default)]
    pub socks_relay: bool,
    /// a talkative origin: after the first datagram it receives, it sends `late_hex` to that peer again at each of these
    /// delays (ms), whether or not anybody is still listening
    #[serde(default)]
    pub late_ms: Vec<u64>,
    #[serde(default)]
    pub late_hex: Option<String>,
}

#[derive(Deserialize, Clone, Debug)]
#[serde(tag = "kind", rename_all = "snake_case")]
pub enum Actor {
    TcpClient(TcpClient),
    TcpServer(TcpServer),
    Udp(UdpPeer),
    QuicClient(quic::QuicClient),
    QuicServer(quic::QuicServer),
}

impl Actor {
    pub fn is_foreground(&self) -> bool {
        match self {
            Actor::TcpClient(c) => !c.background,
            Actor::TcpServer(_) => false,
            Actor::Udp(u) => !u.ops.is_empty(),
            Actor::QuicClient(c) => !c.background,
            Actor::QuicServer(_) => false,
        }
    }
}

pub async fn run_actor(idx: usize, a: Actor, sh: Arc<Shared>) {
    match a {
        Actor::TcpClient(c) => run_tcp_client(idx, c, sh).await,
        Actor::TcpServer(s) => run_tcp_server(idx, s, sh).await,
        Actor::Udp(u) => run_udp(idx, u, sh).await,
        Actor::QuicClient(c) => quic::run_client(idx, c, sh).await,
        Actor::QuicServer(s) => quic::run_server(idx, s, sh).await,
    }
}

pub async fn start_gate(start_ms: u64, flag: &Option<String>, sh: &Arc<Shared>) {
    if let Some(f) = flag {
        sh.wait_flag(f).await;
    }
    let now = sim::now_us() / 1000;
    if start_ms > now {
        tokio::time::sleep(Duration::from_millis(start_ms - now)).await;
    }
}

pub fn parse_addr(s: &str) -> SocketAddr {
    s.parse().unwrap_or_else(|_| super::fail(format!("bad socket address in plan: {}", s)))
}

// ---------------------------------------------------------------------------------------
// stream connections

pub struct Reader {
    pub rd: Option<ReadHalf<BoxStream>>,
    pub buf: Vec<u8>,
    pub eof: bool,
    pub total: u64,
    pub hash: Fnv,
    /// slow reader: at most `pace_chunk` bytes per read, `pace_gap_ms` between reads (op "pace")
    pub pace_chunk: usize,
    pub pace_gap_ms: u64,
}
pub struct Writer {
    pub wr: Option<WriteHalf<BoxStream>>,
    pub total: u64,
    pub hash: Fnv,
}

pub struct ConnCtx {
    pub actor: String,
    pub conn: String,
    pub sim_id: u64,
    pub sh: Arc<Shared>,
}

impl Reader {
    /// read more bytes into buf; Ok(0) = EOF
    async fn fill(&mut self) -> std::io::Result<usize> {
        if self.eof {
            return Ok(0);
        }
        let rd = match self.rd.as_mut() {
            Some(r) => r,
            None => return Err(std::io::Error::new(std::io::ErrorKind::NotConnected, "closed")),
        };
        if self.pace_gap_ms > 0 {
            tokio::time::sleep(Duration::from_millis(self.pace_gap_ms)).await;
        }
        let mut tmp = vec![0u8; if self.pace_chunk > 0 { self.pace_chunk.min(65536) } else { 65536 }];
        let n = rd.read(&mut tmp).await?;
        if n == 0 {
            self.eof = true;
        } else {
            self.total += n as u64;
            self.hash.update(&tmp[..n]);
            self.buf.extend_from_slice(&tmp[..n]);
        }
        Ok(n)
    }
}

fn find(hay: &[u8], needle: &[u8]) -> Option<usize> {
    if needle.is_empty() || hay.len() < needle.len() {
        return None;
    }
    hay.windows(needle.len()).position(|w| w == needle)
}

enum Outcome {
    Ok,
    Fail(String),
}

fn rec_base(ctx: &ConnCtx, i: &str, op: &Op) -> serde_json::Map<String, Value> {
    let mut m = serde_json::Map::new();
    m.insert("actor".into(), json!(ctx.actor));
    m.insert("conn".into(), json!(ctx.conn));
    m.insert("sim_id".into(), json!(ctx.sim_id));
    m.insert("i".into(), json!(i));
    m.insert("op".into(), json!(op.op));
    if let Some(l) = &op.label {
        m.insert("label".into(), json!(l));
    }
    m.insert("t0".into(), json!(sim::now_us()));
    m.insert("s0".into(), json!(sim::stamp()));
    m
}

fn rec_end(ctx: &ConnCtx, mut m: serde_json::Map<String, Value>, res: &str) {
    m.insert("t1".into(), json!(sim::now_us()));
    m.insert("s1".into(), json!(sim::stamp()));
    m.insert("res".into(), json!(res));
    ctx.sh.record(Value::Object(m));
}

fn io_res(e: &std::io::Error) -> String {
    format!("err:{:?}", e.kind())
}

async fn read_op(ctx: &ConnCtx, r: &mut Reader, i: &str, op: &Op) -> Outcome {
    let mut m = rec_base(ctx, i, op);
    let keep = op.keep.unwrap_or(4096);
    let timeout = Duration::from_millis(op.timeout_ms.unwrap_or(super::d_timeout()));
    let fut = async {
        match op.op.as_str() {
            "pace" => {
                r.pace_chunk = op.chunk;
                r.pace_gap_ms = op.gap_ms;
                ("ok".to_string(), Vec::new())
            }
            "recv_n" => {
                while r.buf.len() < op.n {
                    match r.fill().await {
                        Ok(0) => return (format!("eof@{}", r.buf.len()), r.buf.drain(..).collect::<Vec<u8>>()),
                        Ok(_) => {}
                        Err(e) => return (io_res(&e), r.buf.drain(..).collect()),
                    }
                }
                ("ok".to_string(), r.buf.drain(..op.n).collect())
            }
            "recv_until" | "recv_http_head" => {
                let pat = if op.op == "recv_http_head" { b"\r\n\r\n".to_vec() } else { op.literal() };
                let max = if op.max == 0 { 1 << 20 } else { op.max };
                loop {
                    if let Some(p) = find(&r.buf, &pat) {
                        let end = p + pat.len();
                        return ("ok".to_string(), r.buf.drain(..end).collect());
                    }
                    if r.buf.len() > max {
                        return ("toolong".to_string(), r.buf.drain(..).collect());
                    }
                    match r.fill().await {
                        Ok(0) => return (format!("eof@{}", r.buf.len()), r.buf.drain(..).collect()),
                        Ok(_) => {}
                        Err(e) => return (io_res(&e), r.buf.drain(..).collect()),
                    }
                }
            }
            "recv_socks5_reply" => {
                // VER REP RSV ATYP ADDR PORT : framing only
                loop {
                    let need = if r.buf.len() < 5 {
                        5
                    } else {
                        match r.buf[3] {
                            1 => 10,
                            4 => 22,
                            3 => 7 + r.buf[4] as usize,
                            _ => 4,
                        }
                    };
                    if r.buf.len() >= need && r.buf.len() >= 4 {
                        return ("ok".to_string(), r.buf.drain(..need).collect());
                    }
                    match r.fill().await {
                        Ok(0) => return (format!("eof@{}", r.buf.len()), r.buf.drain(..).collect()),
                        Ok(_) => {}
                        Err(e) => return (io_res(&e), r.buf.drain(..).collect()),
                    }
                }
            }
            "recv_socks4_request" => {
                // VN CD PORT IP USERID 00 [DOMAIN 00]
                loop {
                    let mut need = None;
                    if r.buf.len() >= 9 {
                        if let Some(p) = r.buf[8..].iter().position(|b| *b == 0) {
                            let end1 = 8 + p + 1;
                            let is4a = r.buf[4] == 0 && r.buf[5] == 0 && r.buf[6] == 0 && r.buf[7] != 0;
                            if !is4a {
                                need = Some(end1);
                            } else if let Some(q) = r.buf[end1..].iter().position(|b| *b == 0) {
                                need = Some(end1 + q + 1);
                            }
                        }
                    }
                    if let Some(n) = need {
                        return ("ok".to_string(), r.buf.drain(..n).collect());
                    }
                    if r.buf.len() > 70000 {
                        return ("toolong".to_string(), r.buf.drain(..).collect());
                    }
                    match r.fill().await {
                        Ok(0) => return (format!("eof@{}", r.buf.len()), r.buf.drain(..).collect()),
                        Ok(_) => {}
                        Err(e) => return (io_res(&e), r.buf.drain(..).collect()),
                    }
                }
            }
            "recv_rpfm" => {
                // MAGIC(4) SESSION(4) ATTR_LEN(2) BODY_LEN(2) ATTR BODY
                loop {
                    if r.buf.len() >= 12 {
                        let al = u16::from_be_bytes([r.buf[8], r.buf[9]]) as usize;
                        let bl = u16::from_be_bytes([r.buf[10], r.buf[11]]) as usize;
                        let need = 12 + al + bl;
                        if r.buf.len() >= need {
                            return ("ok".to_string(), r.buf.drain(..need).collect());
                        }
                    }
                    match r.fill().await {
                        Ok(0) => return (format!("eof@{}", r.buf.len()), r.buf.drain(..).collect()),
                        Ok(_) => {}
                        Err(e) => return (io_res(&e), r.buf.drain(..).collect()),
                    }
                }
            }
            "collect_rpfm" => {
                // read frames until `ms` of virtual time have passed (or EOF/error); one record per frame
                let deadline = tokio::time::Instant::now() + Duration::from_millis(op.ms);
                let mut count = 0usize;
                loop {
                    let mut got = None;
                    if r.buf.len() >= 12 {
                        let al = u16::from_be_bytes([r.buf[8], r.buf[9]]) as usize;
                        let bl = u16::from_be_bytes([r.buf[10], r.buf[11]]) as usize;
                        if r.buf.len() >= 12 + al + bl {
                            got = Some(r.buf.drain(..12 + al + bl).collect::<Vec<u8>>());
                        }
                    }
                    if let Some(f) = got {
                        let mut h = Fnv::new();
                        h.update(&f);
                        let keepn = if f.len() <= 512 { f.len() } else { 320 };
                        ctx.sh.record(json!({"actor": ctx.actor, "conn": ctx.conn, "rpfm": "recv", "len": f.len(), "hash": h.hex(), "hex": hex(&f[..keepn]), "t": sim::now_us(), "s": sim::stamp()}));
                        count += 1;
                        continue;
                    }
                    match tokio::time::timeout_at(deadline, r.fill()).await {
                        Err(_) => return (format!("ok"), count.to_string().into_bytes()),
                        Ok(Ok(0)) => return (format!("eof@{}", r.buf.len()), count.to_string().into_bytes()),
                        Ok(Ok(_)) => {}
                        Ok(Err(e)) => return (io_res(&e), count.to_string().into_bytes()),
                    }
                }
            }
            "recv_eof" => {
                // read until EOF or error; report how much came
                // (what is kept stays in r.buf, so that a timeout still reports what had arrived by then)
                let mut total = r.buf.len();
                r.buf.truncate(keep);
                loop {
                    match r.fill().await {
                        Ok(0) => return (format!("eof@{}", total), r.buf.drain(..).collect()),
                        Ok(n) => {
                            total += n;
                            r.buf.truncate(keep);
                        }
                        Err(e) => return (format!("{}@{}", io_res(&e), total), r.buf.drain(..).collect()),
                    }
                }
            }
            "expect" => {
                let (seed, len) = op.fill.unwrap_or((0, 0));
                let mut g = StreamGen::new(seed);
                let mut done: u64 = 0;
                loop {
                    let mut bad = None;
                    let take = (r.buf.len() as u64).min(len - done) as usize;
                    for (k, b) in r.buf[..take].iter().enumerate() {
                        let e = g.next();
                        if *b != e {
                            bad = Some((k, e, *b));
                            break;
                        }
                    }
                    if let Some((k, e, b)) = bad {
                        let ctxb: Vec<u8> = r.buf[k..(k + 16).min(r.buf.len())].to_vec();
                        r.buf.clear();
                        return (format!("mismatch@{} want={:02x} got={:02x}", done + k as u64, e, b), ctxb);
                    }
                    r.buf.drain(..take);
                    done += take as u64;
                    if done >= len {
                        return ("ok".to_string(), Vec::new());
                    }
                    match r.fill().await {
                        Ok(0) => return (format!("eof@{}", done), Vec::new()),
                        Ok(_) => {}
                        Err(e) => return (format!("{}@{}", io_res(&e), done), Vec::new()),
                    }
                }
            }
            other => (format!("badop:{}", other), Vec::new()),
        }
    };
    let (res, data) = match tokio::time::timeout(timeout, fut).await {
        Ok(x) => x,
        Err(_) => (format!("timeout@{}", r.buf.len()), r.buf.clone()),
    };
    m.insert("n".into(), json!(data.len()));
    m.insert("hex".into(), json!(hex(&data[..data.len().min(keep)])));
    m.insert("rtotal".into(), json!(r.total));
    let ok = res == "ok" || (op.op == "recv_eof" && res.starts_with("eof@"));
    rec_end(ctx, m, &res);
    if ok {
        Outcome::Ok
    } else {
        Outcome::Fail(res)
    }
}

async fn write_op(ctx: &ConnCtx, w: &mut Writer, i: &str, op: &Op) -> Outcome {
    let mut m = rec_base(ctx, i, op);
    let timeout = Duration::from_millis(op.timeout_ms.unwrap_or(super::d_timeout()));
    let mut sent: u64 = 0;
    let fut = async {
        let wr = match w.wr.as_mut() {
            Some(x) => x,
            None => return "err:closed".to_string(),
        };
        match op.op.as_str() {
            "send" => {
                let lit = op.literal();
                // literal part, possibly cut into pieces
                let mut pieces: Vec<&[u8]> = Vec::new();
                let mut rest: &[u8] = &lit;
                for c in op.cuts.iter() {
                    if *c == 0 || *c >= rest.len() {
                        continue;
                    }
                    let (a, b) = rest.split_at(*c);
                    pieces.push(a);
                    rest = b;
                }
                if !rest.is_empty() {
                    pieces.push(rest);
                }
                let np = pieces.len();
                for (k, p) in pieces.into_iter().enumerate() {
                    if let Err(e) = wr.write_all(p).await {
                        return io_res(&e);
                    }
                    let _ = wr.flush().await;
                    sent += p.len() as u64;
                    w.hash.update(p);
                    if op.gap_ms > 0 && (k + 1 < np) {
                        tokio::time::sleep(Duration::from_millis(op.gap_ms)).await;
                    }
                }
                if let Some((seed, len)) = op.fill {
                    let mut g = StreamGen::new(seed);
                    let chunk = if op.chunk == 0 { 16384 } else { op.chunk };
                    let mut left = len as usize;
                    while left > 0 {
                        let n = left.min(chunk);
                        let d = g.take(n);
                        if let Err(e) = wr.write_all(&d).await {
                            return format!("{}@{}", io_res(&e), sent);
                        }
                        let _ = wr.flush().await;
                        w.hash.update(&d);
                        sent += n as u64;
                        left -= n;
                        if op.gap_ms > 0 && left > 0 {
                            tokio::time::sleep(Duration::from_millis(op.gap_ms)).await;
                        }
                    }
                }
                "ok".to_string()
            }
            "shutdown" => match wr.shutdown().await {
                Ok(()) => "ok".to_string(),
                Err(e) => io_res(&e),
            },
            other => format!("badop:{}", other),
        }
    };
    let res = match tokio::time::timeout(timeout, fut).await {
        Ok(x) => x,
        Err(_) => format!("timeout@{}", sent),
    };
    w.total += sent;
    m.insert("n".into(), json!(sent));
    m.insert("wtotal".into(), json!(w.total));
    rec_end(ctx, m, &res);
    if res == "ok" {
        Outcome::Ok
    } else {
        Outcome::Fail(res)
    }
}

fn is_read_op(o: &str) -> bool {
    matches!(o, "recv_n" | "recv_until" | "recv_http_head" | "recv_socks5_reply" | "recv_socks4_request" | "recv_rpfm" | "collect_rpfm" | "recv_eof" | "expect" | "pace")
}
fn is_write_op(o: &str) -> bool {
    matches!(o, "send" | "shutdown")
}

async fn common_op(ctx: &ConnCtx, i: &str, op: &Op) -> Option<Outcome> {
    match op.op.as_str() {
        "sleep" => {
            let m = rec_base(ctx, i, op);
            tokio::time::sleep(Duration::from_millis(op.ms)).await;
            rec_end(ctx, m, "ok");
            Some(Outcome::Ok)
        }
        "wait_until" => {
            let m = rec_base(ctx, i, op);
            let now = sim::now_us() / 1000;
            if op.ms > now {
                tokio::time::sleep(Duration::from_millis(op.ms - now)).await;
            }
            rec_end(ctx, m, "ok");
            Some(Outcome::Ok)
        }
        "set" => {
            let m = rec_base(ctx, i, op);
            if let Some(f) = &op.flag {
                ctx.sh.set_flag(f);
            }
            rec_end(ctx, m, "ok");
            Some(Outcome::Ok)
        }
        "wait" => {
            let m = rec_base(ctx, i, op);
            let timeout = Duration::from_millis(op.timeout_ms.unwrap_or(super::d_timeout()));
            let f = op.flag.clone().unwrap_or_default();
            let r = tokio::time::timeout(timeout, ctx.sh.wait_flag(&f)).await;
            rec_end(ctx, m, if r.is_ok() { "ok" } else { "timeout" });
            Some(if r.is_ok() { Outcome::Ok } else { Outcome::Fail("timeout".into()) })
        }
        "mark" => {
            let m = rec_base(ctx, i, op);
            rec_end(ctx, m, "ok");
            Some(Outcome::Ok)
        }
        "stall" => {
            let m = rec_base(ctx, i, op);
            rec_end(ctx, m, "ok");
            std::future::pending::<()>().await;
            Some(Outcome::Ok)
        }
        _ => None,
    }
}

async fn run_reader_seq(ctx: &ConnCtx, r: &mut Reader, prefix: &str, ops: &[Op]) -> bool {
    for (k, op) in ops.iter().enumerate() {
        let i = format!("{}{}", prefix, k);
        let out = if let Some(o) = common_op(ctx, &i, op).await {
            o
        } else if is_read_op(&op.op) {
            read_op(ctx, r, &i, op).await
        } else {
            Outcome::Fail(format!("op {} not allowed on the read track", op.op))
        };
        if let Outcome::Fail(_) = out {
            if op.on_fail.as_deref() != Some("continue") {
                return false;
            }
        }
    }
    true
}

async fn run_writer_seq(ctx: &ConnCtx, w: &mut Writer, prefix: &str, ops: &[Op]) -> bool {
    for (k, op) in ops.iter().enumerate() {
        let i = format!("{}{}", prefix, k);
        let out = if let Some(o) = common_op(ctx, &i, op).await {
            o
        } else if is_write_op(&op.op) {
            write_op(ctx, w, &i, op).await
        } else {
            Outcome::Fail(format!("op {} not allowed on the write track", op.op))
        };
        if let Outcome::Fail(_) = out {
            if op.on_fail.as_deref() != Some("continue") {
                return false;
            }
        }
    }
    true
}

/// Run a script on an established stream. Returns when the script ends; the stream is
/// then dropped (closed) unless a `reset` op aborted it earlier.
pub async fn run_script(ctx: ConnCtx, stream: BoxStream, ops: Vec<Op>) {
    let (rd, wr) = tokio::io::split(stream);
    let mut r = Reader { rd: Some(rd), buf: Vec::new(), eof: false, total: 0, hash: Fnv::new(), pace_chunk: 0, pace_gap_ms: 0 };
    let mut w = Writer { wr: Some(wr), total: 0, hash: Fnv::new() };
    let mut completed = true;
    for (k, op) in ops.iter().enumerate() {
        let i = format!("{}", k);
        let out = if let Some(o) = common_op(&ctx, &i, op).await {
            o
        } else if is_read_op(&op.op) {
            read_op(&ctx, &mut r, &i, op).await
        } else if is_write_op(&op.op) {
            write_op(&ctx, &mut w, &i, op).await
        } else {
            match op.op.as_str() {
                "par" => {
                    let m = rec_base(&ctx, &i, op);
                    let (pr, pw) = (format!("{}r", i), format!("{}w", i));
                    let (a, b) = tokio::join!(
                        run_reader_seq(&ctx, &mut r, &pr, &op.r),
                        run_writer_seq(&ctx, &mut w, &pw, &op.w)
                    );
                    rec_end(&ctx, m, if a && b { "ok" } else { "fail" });
                    if a && b {
                        Outcome::Ok
                    } else {
                        Outcome::Fail("par".into())
                    }
                }
                "serve_tagged" => {
                    // self-describing tunnels: 32-byte header "TAG1" seed c2s_len s2c_len flags,
                    // then verify the client's stream and send the derived reply stream.
                    let hdr_op = Op { op: "recv_n".into(), n: 32, timeout_ms: op.timeout_ms, label: Some("tag".into()), ..Default::default() };
                    match read_op(&ctx, &mut r, &format!("{}h", i), &hdr_op).await {
                        Outcome::Ok => {
                            // the header bytes were recorded by read_op; parse them again from the record
                            let hdr = ctx.sh.records.lock().unwrap().last().and_then(|v| v.get("hex").and_then(|h| h.as_str()).map(unhex)).unwrap_or_default();
                            if hdr.len() == 32 && &hdr[..4] == b"TAG1" {
                                let u = |o: usize| u64::from_le_bytes(hdr[o..o + 8].try_into().unwrap());
                                let (seed, c2s, s2c) = (u(4), u(12), u(20));
                                let flags = u32::from_le_bytes(hdr[28..32].try_into().unwrap());
                                if flags & 2 != 0 {
                                    // casualty: the origin aborts while the client's stream is still arriving
                                    // (unread bytes at the close = reset); delay in ms in bits 8..24
                                    let mut m = rec_base(&ctx, &i, op);
                                    m.insert("tag_seed".into(), json!(seed));
                                    tokio::time::sleep(Duration::from_millis(((flags >> 8) & 0xffff) as u64)).await;
                                    sim::tcp_reset_id(ctx.sim_id);
                                    r.rd = None;
                                    w.wr = None;
                                    rec_end(&ctx, m, "casualty");
                                    Outcome::Ok
                                } else {
                                let rops = vec![
                                    Op { op: "expect".into(), fill: Some((seed, c2s)), timeout_ms: op.timeout_ms, ..Default::default() },
                                    Op { op: "recv_eof".into(), timeout_ms: op.timeout_ms, ..Default::default() },
                                ];
                                let mut wops = vec![Op { op: "send".into(), fill: Some((seed ^ 0x5A5A_5A5A_5A5A_5A5A, s2c)), chunk: op.chunk, timeout_ms: op.timeout_ms, ..Default::default() }];
                                if flags & 1 == 0 {
                                    wops.push(Op { op: "shutdown".into(), ..Default::default() });
                                }
                                let mut m = rec_base(&ctx, &i, op);
                                m.insert("tag_seed".into(), json!(seed));
                                let (pr, pw) = (format!("{}r", i), format!("{}w", i));
                                let (a, b) = tokio::join!(run_reader_seq(&ctx, &mut r, &pr, &rops), run_writer_seq(&ctx, &mut w, &pw, &wops));
                                rec_end(&ctx, m, if a && b { "ok" } else { "fail" });
                                if a && b {
                                    Outcome::Ok
                                } else {
                                    Outcome::Fail("tagged".into())
                                }
                                }
                            } else {
                                let m = rec_base(&ctx, &i, op);
                                rec_end(&ctx, m, "badtag");
                                Outcome::Fail("badtag".into())
                            }
                        }
                        Outcome::Fail(e) => Outcome::Fail(e),
                    }
                }
                "reset" => {
                    let m = rec_base(&ctx, &i, op);
                    sim::tcp_reset_id(ctx.sim_id);
                    r.rd = None;
                    w.wr = None;
                    rec_end(&ctx, m, "ok");
                    Outcome::Ok
                }
                "close" => {
                    let m = rec_base(&ctx, &i, op);
                    r.rd = None;
                    w.wr = None;
                    rec_end(&ctx, m, "ok");
                    Outcome::Ok
                }
                other => {
                    let m = rec_base(&ctx, &i, op);
                    rec_end(&ctx, m, &format!("badop:{}", other));
                    Outcome::Fail("badop".into())
                }
            }
        };
        if let Outcome::Fail(_) = out {
            if op.on_fail.as_deref() != Some("continue") {
                completed = false;
                break;
            }
        }
    }
    ctx.sh.record(json!({
        "actor": ctx.actor, "conn": ctx.conn, "sim_id": ctx.sim_id, "end": true, "completed": completed,
        "rtotal": r.total, "wtotal": w.total, "rhash": r.hash.hex(), "whash": w.hash.hex(),
        "t": sim::now_us(), "s": sim::stamp(),
    }));
    drop(r);
    drop(w);
}

async fn run_tcp_client(_idx: usize, c: TcpClient, sh: Arc<Shared>) {
    start_gate(c.start_ms, &c.start_flag, &sh).await;
    let src: IpAddr = c.src.parse().unwrap_or_else(|_| super::fail(format!("bad src ip {}", c.src)));
    let dst = parse_addr(&c.dst);
    let chaos = c.chaos.as_ref().map(|x| x.to_sim());
    let t0 = sim::now_us();
    let s0 = sim::stamp();
    let tcp = match c.via.as_deref() {
        Some(v) => sim::tcp_connect_diverted(src, dst, parse_addr(v), &format!("c:{}", c.id), chaos).await,
        None => sim::tcp_connect_from(src, dst, &format!("c:{}", c.id), chaos).await,
    };
    let tcp = match tcp {
        Ok(s) => s,
        Err(e) => {
            sh.record(json!({"actor": c.id, "conn": c.id, "connect": format!("err:{:?}", e.kind()), "t0": t0, "s0": s0, "t1": sim::now_us(), "s1": sim::stamp()}));
            return;
        }
    };
    let sim_id = tcp.sim_id();
    let local = tcp.local_addr().ok();
    let stream: BoxStream = match &c.tls {
        None => Box::new(tcp),
        // a TLS handshake that never completes (a proxy that stopped answering) is an observation, not a reason to wait forever
        Some(t) => match tokio::time::timeout(Duration::from_secs(20), tlsutil::client_connect(t, tcp)).await.unwrap_or_else(|_| Err("handshake timeout after 20 s".into())) {
            Ok(s) => Box::new(s),
            Err(e) => {
                sh.record(json!({"actor": c.id, "conn": c.id, "sim_id": sim_id, "connect": format!("tlserr:{}", e), "t0": t0, "s0": s0, "t1": sim::now_us(), "s1": sim::stamp()}));
                return;
            }
        },
    };
    sh.record(json!({"actor": c.id, "conn": c.id, "sim_id": sim_id, "connect": "ok", "local": local.map(|a| a.to_string()),
                     "t0": t0, "s0": s0, "t1": sim::now_us(), "s1": sim::stamp()}));
    let ctx = ConnCtx { actor: c.id.clone(), conn: c.id.clone(), sim_id, sh: sh.clone() };
    run_script(ctx, stream, c.ops.clone()).await;
}

async fn run_tcp_server(_idx: usize, s: TcpServer, sh: Arc<Shared>) {
    start_gate(s.start_ms, &s.start_flag, &sh).await;
    let bind = parse_addr(&s.bind);
    let listener = match sim::tcp_listen(bind) {
        Ok(l) => l,
        Err(e) => {
            sh.record(json!({"actor": s.id, "listen": format!("err:{:?}", e.kind())}));
            return;
        }
    };
    sh.record(json!({"actor": s.id, "listen": "ok", "t": sim::now_us(), "s": sim::stamp()}));
    let acceptor = s.tls.as_ref().map(|t| tlsutil::server_acceptor(t));
    let mut k = 0usize;
    loop {
        let accepted = if let Some(f) = &s.stop_flag {
            tokio::select! {
                a = listener.accept() => Some(a),
                _ = sh.wait_flag(f) => None,
            }
        } else {
            Some(listener.accept().await)
        };
        let (tcp, peer) = match accepted {
            Some(Ok(x)) => x,
            Some(Err(_)) => return,
            None => {
                sh.record(json!({"actor": s.id, "stopped": true, "t": sim::now_us(), "s": sim::stamp()}));
                return;
            }
        };
        let ops = if k < s.conns.len() { Some(s.conns[k].clone()) } else { s.default_ops.clone() };
        let conn = format!("{}#{}", s.id, k);
        k += 1;
        let sim_id = tcp.sim_id();
        sh.record(json!({"actor": s.id, "conn": conn, "sim_id": sim_id, "accept": "ok", "peer": peer.to_string(), "t": sim::now_us(), "s": sim::stamp()}));
        let ops = match ops {
            Some(o) => o,
            None => continue, // dropped: closed immediately
        };
        let sh2 = sh.clone();
        let acceptor = acceptor.clone();
        let id = s.id.clone();
        let delay = s.accept_delay_ms;
        sh.busy_add(1);
        tokio::spawn(async move {
            if delay > 0 {
                tokio::time::sleep(Duration::from_millis(delay)).await;
            }
            let stream: Option<BoxStream> = match acceptor {
                None => Some(Box::new(tcp)),
                Some(Ok(acc)) => match acc.accept(tcp).await {
                    Ok(t) => {
                        let certs = t.get_ref().1.peer_certificates().map(|c| c.len()).unwrap_or(0);
                        sh2.record(json!({"actor": id, "conn": conn, "tls_accept": "ok", "client_certs": certs, "t": sim::now_us(), "s": sim::stamp()}));
                        Some(Box::new(t) as BoxStream)
                    }
                    Err(e) => {
                        sh2.record(json!({"actor": id, "conn": conn, "tls_accept": format!("err:{}", e), "t": sim::now_us(), "s": sim::stamp()}));
                        None
                    }
                },
                Some(Err(e)) => {
                    sh2.record(json!({"actor": id, "conn": conn, "tls_accept": format!("cfgerr:{}", e)}));
                    None
                }
            };
            if let Some(stream) = stream {
                let ctx = ConnCtx { actor: id, conn, sim_id, sh: sh2.clone() };
                run_script(ctx, stream, ops).await;
            }
            sh2.busy_add(-1);
        });
    }
}

// ---------------------------------------------------------------------------------------
// UDP

fn dgram_record(actor: &str, dir: &str, peer: &SocketAddr, data: &[u8]) -> Value {
    let mut h = Fnv::new();
    h.update(data);
    let keep = if data.len() <= 512 { data.len() } else { 96 };
    json!({"actor": actor, "udp": dir, "peer": peer.to_string(), "len": data.len(), "hash": h.hex(),
           "hex": hex(&data[..keep]), "t": sim::now_us(), "s": sim::stamp()})
}

async fn run_udp(_idx: usize, u: UdpPeer, sh: Arc<Shared>) {
    start_gate(u.start_ms, &None, &sh).await;
    let bind = parse_addr(&u.bind);
    let sock = match sim::udp_bind_at(bind) {
        Ok(s) => Arc::new(s),
        Err(e) => {
            sh.record(json!({"actor": u.id, "udp_bind": format!("err:{:?}", e.kind())}));
            return;
        }
    };
    // collector
    {
        let sock = sock.clone();
        let sh = sh.clone();
        let id = u.id.clone();
        let echo = u.echo;
        let prefix = u.echo_prefix_hex.as_ref().map(|h| unhex(h)).unwrap_or_default();
        let relay = u.socks_relay;
        let late = u.late_ms.clone();
        let late_data = u.late_hex.as_ref().map(|h| unhex(h)).unwrap_or_else(|| b"<LATE>".to_vec());
        tokio::spawn(async move {
            // socks relay state: the client (proxy) address seen first
            let mut relay_client: Option<SocketAddr> = None;
            let mut late_started = false;
            loop {
                match sock.recv_dgram().await {
                    Ok((data, from, _to)) => {
                        sh.record(dgram_record(&id, "recv", &from, &data));
                        if !late.is_empty() && !late_started {
                            late_started = true;
                            let (sock, late, late_data) = (sock.clone(), late.clone(), late_data.clone());
                            tokio::spawn(async move {
                                let t0 = tokio::time::Instant::now();
                                for d in late {
                                    tokio::time::sleep_until(t0 + std::time::Duration::from_millis(d)).await;
                                    let _ = sock.try_send_to(&late_data, from);
                                }
                            });
                        }
                        if echo {
                            let mut out = prefix.clone();
                            out.extend_from_slice(&data);
                            if sock.try_send_to(&out, from).is_ok() {
                                sh.record(dgram_record(&id, "send", &from, &out));
                            }
                        } else if relay {
                            // minimal SOCKS5 UDP relay: header from the client is stripped and the
                            // payload forwarded to the named IP destination; anything else is a reply
                            // from a destination and is wrapped and sent back to the client.
                            let is_client = relay_client.map(|c| c == from).unwrap_or(true) && data.len() >= 10 && data[0] == 0 && data[1] == 0;
                            if is_client {
                                relay_client = Some(from);
                                if let Some((dst, off)) = parse_socks_udp_ip(&data) {
                                    let _ = sock.try_send_to(&data[off..], dst);
                                }
                            } else if let Some(c) = relay_client {
                                let mut out = vec![0u8, 0, 0];
                                match from {
                                    SocketAddr::V4(a) => {
                                        out.push(1);
                                        out.extend_from_slice(&a.ip().octets());
                                    }
                                    SocketAddr::V6(a) => {
                                        out.push(4);
                                        out.extend_from_slice(&a.ip().octets());
                                    }
                                }
                                out.extend_from_slice(&from.port().to_be_bytes());
                                out.extend_from_slice(&data);
                                let _ = sock.try_send_to(&out, c);
                            }
                        }
                    }
                    Err(e) => {
                        sh.record(json!({"actor": id, "udp": "recv_err", "err": format!("{:?}", e.kind()), "t": sim::now_us(), "s": sim::stamp()}));
                        if e.kind() == std::io::ErrorKind::NotConnected {
                            return;
                        }
                    }
                }
            }
        });
    }
    let ctx = ConnCtx { actor: u.id.clone(), conn: u.id.clone(), sim_id: sock.sim_id(), sh: sh.clone() };
    for (k, op) in u.ops.iter().enumerate() {
        let i = format!("{}", k);
        if common_op(&ctx, &i, op).await.is_some() {
            continue;
        }
        if op.op == "send" {
            let to_s = op.to.clone().unwrap_or_default();
            let to = if let Some(conn) = to_s.strip_prefix("socks5reply:") {
                // destination = BND.ADDR:BND.PORT of the SOCKS5 reply recorded on connection `conn`
                match socks5_reply_addr(&sh, conn) {
                    Some(a) => a,
                    None => {
                        sh.record(json!({"actor": u.id, "udp": "send_err", "err": "no socks5 reply recorded", "t": sim::now_us(), "s": sim::stamp()}));
                        continue;
                    }
                }
            } else {
                parse_addr(&to_s)
            };
            let data = op.data();
            match sock.try_send_to(&data, to) {
                Ok(_) => sh.record(dgram_record(&u.id, "send", &to, &data)),
                Err(e) => sh.record(json!({"actor": u.id, "udp": "send_err", "err": format!("{:?}", e.kind()), "t": sim::now_us(), "s": sim::stamp()})),
            }
        }
    }
}

fn socks5_reply_addr(sh: &Arc<Shared>, conn: &str) -> Option<SocketAddr> {
    let recs = sh.records.lock().unwrap();
    for r in recs.iter() {
        if r.get("conn").and_then(|c| c.as_str()) == Some(conn) && r.get("label").and_then(|c| c.as_str()) == Some("reply") {
            let d = unhex(r.get("hex")?.as_str()?);
            let (mut a, _) = parse_socks_udp_ip(&d)?;
            if a.ip().is_unspecified() {
                a.set_ip("10.0.0.1".parse().unwrap());
            }
            return Some(a);
        }
    }
    None
}

fn parse_socks_udp_ip(d: &[u8]) -> Option<(SocketAddr, usize)> {
    if d.len() < 4 {
        return None;
    }
    match d[3] {
        1 if d.len() >= 10 => {
            let ip = std::net::Ipv4Addr::new(d[4], d[5], d[6], d[7]);
            let port = u16::from_be_bytes([d[8], d[9]]);
            Some((SocketAddr::new(IpAddr::V4(ip), port), 10))
        }
        4 if d.len() >= 22 => {
            let mut o = [0u8; 16];
            o.copy_from_slice(&d[4..20]);
            let port = u16::from_be_bytes([d[20], d[21]]);
            Some((SocketAddr::new(IpAddr::V6(o.into()), port), 22))
        }
        _ => None,
    }
}

pub fn shared_handle() -> Arc<Shared> {
    shared()
}
