"""Orchestrator core: build, run plans in parallel, shrink, replay, evidence, known findings."""
import hashlib
import json
import multiprocessing as mp
import os
import random
import shutil
import subprocess
import sys
import tempfile
import time

VERIF = os.path.dirname(os.path.dirname(os.path.abspath(__file__)))
SIM = os.path.join(VERIF, "sim")
# The registered checks always judge /repo. For sensitivity experiments VERIF_REPO names another checkout (a scratch
# worktree with a seeded change): a derived shadow manifest with its own target directory is generated for it, so that
# such experiments never touch /repo and can run next to a sweep.
REPO = os.environ.get("VERIF_REPO", "/repo").rstrip("/")
ALT = REPO != "/repo"
BUILD_DIR = SIM if not ALT else os.path.join(VERIF, os.environ.get("VERIF_ALT_DIR", "sim-alt"))   # (a second name lets two experiments run side by side)
BIN = os.path.join(BUILD_DIR, "target", "debug", "redproxy-rs")
PKI = os.path.join(SIM, "pki")
# sensitivity experiments (VERIF_REPO) never touch the evidence and replay files of the registered checks
REPLAYS = os.path.join(VERIF, "replays") if not ALT else "/dev/shm/verif-alt/replays"
EVIDENCE = os.path.join(VERIF, "evidence") if not ALT else "/dev/shm/verif-alt/evidence"
KNOWN = os.path.join(VERIF, "known_findings.json")
DEFAULT_SEED = 20261003
WATCHDOG_S = 120.0
NPROC = int(os.environ.get("VERIF_JOBS", "16"))


class HarnessError(Exception):
    pass


def die_harness(msg):
    print("HARNESS-ERROR: " + msg, flush=True)
    sys.exit(2)


def build():
    """(Re)build the simulator from /repo's current working tree. A no-op when nothing changed."""
    env = dict(os.environ)
    env["CARGO_NET_OFFLINE"] = "true"
    t = time.time()
    if ALT:
        os.makedirs(os.path.join(BUILD_DIR, ".cargo"), exist_ok=True)
        with open(os.path.join(SIM, "Cargo.toml")) as f:
            man = f.read()
        man = man.replace('"/repo/', '"%s/' % REPO).replace('path = "facade/', 'path = "%s/facade/' % SIM)
        old = None
        if os.path.exists(os.path.join(BUILD_DIR, "Cargo.toml")):
            with open(os.path.join(BUILD_DIR, "Cargo.toml")) as f:
                old = f.read()
        if old != man:
            with open(os.path.join(BUILD_DIR, "Cargo.toml"), "w") as f:
                f.write(man)
        shutil.copy(os.path.join(SIM, "Cargo.lock"), os.path.join(BUILD_DIR, "Cargo.lock"))
        shutil.copy(os.path.join(SIM, ".cargo", "config.toml"), os.path.join(BUILD_DIR, ".cargo", "config.toml"))
    p = subprocess.run(["cargo", "build", "--offline"], cwd=BUILD_DIR, env=env, stdout=subprocess.PIPE, stderr=subprocess.STDOUT, text=True)
    if p.returncode != 0:
        print(p.stdout[-6000:])
        die_harness("simulator build failed (a change in /repo that no longer compiles against the facade is a harness error, not a violation)")
    return time.time() - t


def workdir():
    base = "/dev/shm" if os.path.isdir("/dev/shm") else tempfile.gettempdir()
    d = os.path.join(base, "redsim-%d" % os.getpid())
    os.makedirs(d, exist_ok=True)
    return d


def sim_args(plan):
    return plan.get("argv", ["-c", "/sim/config.yaml", "-l", "warn"])


def run_plan(plan, tag="x", keep_output=False, watchdog=None):
    """Run one plan in a fresh process. Returns dict with exit, result (parsed SIM_OUT or None), stderr, stdout."""
    watchdog = watchdog or plan.get("watchdog_s") or WATCHDOG_S
    d = workdir()
    pf = os.path.join(d, "plan-%s.json" % tag)
    of = os.path.join(d, "out-%s.json" % tag)
    with open(pf, "w") as f:
        json.dump(plan, f)
    if os.path.exists(of):
        os.unlink(of)
    env = {"SIM_SEED": str(plan["seed"]), "SIM_PLAN": pf, "SIM_OUT": of, "PATH": os.environ.get("PATH", ""), "RUST_BACKTRACE": "0"}
    t = time.time()

    def limits():
        import resource
        # a runaway allocation in one simulated process must not take the sandbox down: it aborts that process instead
        resource.setrlimit(resource.RLIMIT_AS, (6 << 30, 6 << 30))

    try:
        p = subprocess.run([BIN] + sim_args(plan), env=env, stdout=subprocess.PIPE, stderr=subprocess.PIPE, timeout=watchdog, cwd=d, preexec_fn=limits)
        rc, out, err, hung = p.returncode, p.stdout, p.stderr, False
    except subprocess.TimeoutExpired as e:
        rc, out, err, hung = None, e.stdout or b"", e.stderr or b"", True
    wall = time.time() - t
    res = None
    if os.path.exists(of):
        try:
            with open(of) as f:
                res = json.load(f)
        except Exception as e:  # truncated output = process died while writing
            res = None
        if not keep_output:
            os.unlink(of)
    if not keep_output:
        try:
            os.unlink(pf)
        except OSError:
            pass
    err_t = err.decode("utf-8", "replace")
    out_t = out.decode("utf-8", "replace")
    if "@@HARNESS-ERROR" in err_t:
        raise HarnessError(err_t[-2000:])
    if res is not None and res.get("harness_error"):
        raise HarnessError(res["harness_error"])
    panics = [l for l in err_t.splitlines() if l.startswith("@@PANIC")]
    return {"exit": rc, "hung": hung, "result": res, "stderr": err_t if len(err_t) <= 6000 else err_t[:2000] + "\n...\n" + err_t[-4000:], "stdout": out_t[-4000:], "wall": wall, "panic_lines": panics}


# ---------------------------------------------------------------------------------------
# violations

class Violation:
    def __init__(self, prop, clause, signature, text, detail=None):
        self.prop = prop
        self.clause = clause
        self.signature = signature
        self.text = text
        self.detail = detail or {}

    def to_json(self):
        return {"property": self.prop, "clause": self.clause, "signature": self.signature, "text": self.text, "detail": self.detail}


def load_known():
    if not os.path.exists(KNOWN):
        return []
    with open(KNOWN) as f:
        return json.load(f).get("findings", [])


def known_status(known, prop, signature):
    for k in known:
        if k.get("property") == prop and k.get("signature") == signature and k.get("status") == "known":
            return k
    return None


# ---------------------------------------------------------------------------------------
# parallel execution

_PROP = None


def _worker_init(modname):
    global _PROP
    import importlib
    _PROP = importlib.import_module(modname)


def _worker_run(job):
    """job = (index, master_seed, tier). Generates the plan, runs it, applies the oracle."""
    i, master, tier = job
    rng = random.Random("%d/%s/%d" % (master, _PROP.ID, i))
    try:
        plan = _PROP.gen(rng, tier, i)
        plan.setdefault("seed", rng.getrandbits(62))
        return evaluate(_PROP, plan, i)
    except HarnessError as e:
        return {"i": i, "harness_error": str(e)}
    except Exception as e:  # generator/oracle bug = harness error
        import traceback
        return {"i": i, "harness_error": "exception in generator/oracle: " + traceback.format_exc()}


def evaluate(prop, plan, i=0, tag=None):
    tag = tag or "%s-%d-%d" % (prop.ID, os.getpid(), i)
    out = run_plan(plan, tag=tag)
    viols = prop.oracle(plan, out)
    r = out["result"] or {}
    if hasattr(prop, "shape_key"):
        r = dict(r)
        r["shape_hash"] = prop.shape_key(plan, out)
    summ = {
        "i": i,
        "violations": [v.to_json() for v in viols],
        "wall": out["wall"],
        "virt_us": r.get("end_us", 0),
        "counters": r.get("counters", {}),
        "log_hash": r.get("log_hash"),
        "shape": (r.get("shape_hash") or shape_hash(r)) if plan.get("lane") != "component" else hashlib.blake2b(json.dumps(plan.get("component"), sort_keys=True).encode(), digest_size=8).hexdigest(),
        "cls": plan.get("meta", {}).get("cls", ""),
        "cfgkey": plan.get("meta", {}).get("cfgkey", ""),
        "probes": prop.probes(plan, out) if hasattr(prop, "probes") else {},
        "exit": out["exit"],
        "hung": out["hung"],
    }
    if viols:
        summ["plan"] = plan
    return summ


def shape_hash(res):
    """Interleaving measure: hash of the sequence of (event kind, id) without times or sizes."""
    h = hashlib.blake2b(digest_size=8)
    for e in res.get("events", []):
        h.update(("%s/%s;" % (e[2], e[3])).encode())
    return h.hexdigest()


class Pool:
    def __init__(self, prop_mod):
        self.pool = mp.Pool(NPROC, initializer=_worker_init, initargs=(prop_mod,))

    def run(self, master, tier, start, count, budget_s, t_end=None):
        jobs = [(i, master, tier) for i in range(start, start + count)]
        out = []
        t0 = time.time()
        it = self.pool.imap_unordered(_worker_run, jobs, chunksize=1)
        for r in it:
            out.append(r)
        return out

    def close(self):
        self.pool.terminate()
        self.pool.join()


# ---------------------------------------------------------------------------------------
# shrinking

def _same_violation(prop, plan, sig):
    out = run_plan(plan, tag="shrink-%d-%s" % (os.getpid(), hashlib.md5(json.dumps(plan, sort_keys=True).encode()).hexdigest()[:8]))
    try:
        viols = prop.oracle(plan, out)
    except Exception:
        return False
    return any(v.signature == sig for v in viols)


def _shrink_candidates(plan):
    """Yield simpler variants of the plan (generic, structure-aware)."""
    import copy
    # 1. no chaos at all
    if plan.get("net", {}).get("chaos") or plan.get("net", {}).get("spawn_yield"):
        p = copy.deepcopy(plan)
        p["net"]["chaos"] = {}
        p["net"]["spawn_yield"] = 0
        yield "no-chaos", p
    # 2. drop actors one at a time
    for k in range(len(plan.get("actors", []))):
        if plan["actors"][k].get("essential"):
            continue
        p = copy.deepcopy(plan)
        del p["actors"][k]
        yield "drop-actor-%d" % k, p
    # 3. drop faults
    for k in range(len(plan.get("faults", []))):
        p = copy.deepcopy(plan)
        del p["faults"][k]
        yield "drop-fault-%d" % k, p
    # 4. per-actor chaos off
    for k, a in enumerate(plan.get("actors", [])):
        if a.get("chaos"):
            p = copy.deepcopy(plan)
            p["actors"][k]["chaos"] = None
            yield "actor-chaos-off-%d" % k, p
    # 5a. drop trailing ops of client actors
    for k, a in enumerate(plan.get("actors", [])):
        ops = a.get("ops", [])
        if len(ops) > 1 and not a.get("keep_ops") and not plan.get("meta", {}).get("keep_ops"):
            p = copy.deepcopy(plan)
            p["actors"][k]["ops"] = ops[:-1]
            yield "drop-last-op-%d" % k, p
    # 5. shrink fill lengths by stream seed (sender and receiver stay in sync)
    if plan.get("meta", {}).get("no_generic_fill_shrink"):
        return
    seeds = {}

    def walk(ops):
        for o in ops:
            if o.get("fill"):
                seeds[o["fill"][0]] = max(seeds.get(o["fill"][0], 0), o["fill"][1])
            walk(o.get("w", []))
            walk(o.get("r", []))
            walk(o.get("ops", []))

    for a in plan.get("actors", []):
        walk(a.get("ops", []))
        for c in a.get("conns", []):
            walk(c)
        for c in a.get("streams", []):
            walk(c)
        walk(a.get("default_ops") or [])
    for s, ln in sorted(seeds.items()):
        for new in (0, 1, ln // 16, ln // 2):
            if new >= ln:
                continue
            p = copy.deepcopy(plan)

            def setlen(ops):
                for o in ops:
                    if o.get("fill") and o["fill"][0] == s:
                        o["fill"] = [s, new]
                    setlen(o.get("w", []))
                    setlen(o.get("r", []))
                    setlen(o.get("ops", []))

            for a in p.get("actors", []):
                setlen(a.get("ops", []))
                for c in a.get("conns", []):
                    setlen(c)
                for c in a.get("streams", []):
                    setlen(c)
                setlen(a.get("default_ops") or [])
            yield "fill-%d-to-%d" % (s, new), p
            break


def shrink(prop, plan, sig, max_runs=120, max_wall=None):
    """Greedy delta debugging: keep a candidate iff the same violation signature persists.
    Bounded in runs and in wall time (a violation that is a hang costs one watchdog period per candidate)."""
    max_wall = max_wall if max_wall is not None else float(os.environ.get("VERIF_SHRINK_WALL", "150"))
    t_start = time.time()
    runs = 0
    improved = True
    cur = plan
    trace = []
    hooks = getattr(prop, "shrink_candidates", None)
    while improved and runs < max_runs:
        improved = False
        cands = list(_shrink_candidates(cur))
        if hooks:
            cands = list(hooks(cur)) + cands
        for name, cand in cands:
            if runs >= max_runs or time.time() - t_start > max_wall:
                improved = False
                break
            runs += 1
            try:
                ok = _same_violation(prop, cand, sig)
            except HarnessError:
                ok = False
            if ok:
                cur = cand
                trace.append(name)
                improved = True
                break
    return cur, trace, runs


# ---------------------------------------------------------------------------------------
# replay files

def write_replay(prop, plan, viol, log_hash, shrink_trace):
    os.makedirs(REPLAYS, exist_ok=True)
    name = "%s-%d.json" % (prop.ID, plan["seed"])
    path = os.path.join(REPLAYS, name)
    with open(path, "w") as f:
        json.dump({"property": prop.ID, "violation": viol, "expected_log_hash": log_hash, "shrink_trace": shrink_trace, "plan": plan}, f, indent=1)
    return path


def replay(path):
    import importlib
    with open(path) as f:
        rep = json.load(f)
    prop = importlib.import_module("vlib.props.%s" % rep["property"].lower())
    build()
    plan = rep["plan"]
    out = run_plan(plan, tag="replay-%d" % os.getpid())
    viols = prop.oracle(plan, out)
    lh = (out["result"] or {}).get("log_hash")
    sig = rep["violation"]["signature"]
    same = [v for v in viols if v.signature == sig]
    print("replay %s: log_hash=%s expected=%s" % (path, lh, rep.get("expected_log_hash")))
    for v in viols:
        print("  violation: %s :: %s" % (v.signature, v.text))
    if same:
        if rep.get("expected_log_hash") and lh != rep["expected_log_hash"]:
            print("NOTE: violation reproduced but the event-log hash differs (the code under test changed since the replay was recorded?)")
        print("VIOLATION property=%s replay=%s" % (rep["property"], path))
        return 1
    print("replay did not reproduce the recorded violation")
    return 0
