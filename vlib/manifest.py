"""Regenerates /verif/MANIFEST.json from the property modules: python3 -m vlib.manifest"""
import importlib
import json
import os
import subprocess

from .core import VERIF

CLAIMED = ["C01", "C02", "C03", "C04", "C05", "C06", "C07", "C10", "C11", "C12", "C13", "C14", "C15", "C16", "C17", "C18", "C19"]

NOT_APPLICABLE = [
    {"property_id": "C08", "reason": "pure function of (expression, request attribute values): type_of/value_of involve no schedule, clock, I/O, peer or fault, so deterministic simulation with fault injection has nothing to decide here (it would be property-based testing in simulator vocabulary); see DESIGN.md section 5"},
    {"property_id": "C09", "reason": "pure function of the program text (parser grammar/precedence): no concurrency, time, I/O or multi-party behaviour for a simulator to control; see DESIGN.md section 5"},
]


def main():
    checks = []
    na = list(NOT_APPLICABLE)
    for pid in CLAIMED:
        path = os.path.join(VERIF, "vlib", "props", pid.lower() + ".py")
        if not os.path.exists(path):
            na.append({"property_id": pid, "reason": "check not built yet in this round (planned, see DESIGN.md section 4)"})
            continue
        m = importlib.import_module("vlib.props.%s" % pid.lower())
        checks.append({
            "property_id": pid,
            "quick_cmd": "./check %s --tier quick" % pid,
            "thorough_cmd": "./check %s --tier thorough" % pid,
            "evidence_file": "/verif/evidence/%s.json" % pid,
            "replay_cmd_template": "./check replay {path}",
            "engine": "redproxy-sim",
            "level_claimed": {"category": "exploration", "text": m.LEVEL_TEXT, "design_ref": "DESIGN.md section 4, %s" % pid},
            "level_note": m.LEVEL_NOTE,
            "technique": getattr(m, "TECHNIQUE", "deterministic simulation with fault injection: seeded search over schedules, segmentations and fault sequences of the real binary on a simulated network/clock, oracle over the recorded history"),
        })
    try:
        commits = subprocess.run(["git", "-C", "/repo", "log", "--format=%H %s"], stdout=subprocess.PIPE, text=True).stdout.splitlines()
        hooks = [c.split()[0] for c in commits if c.split(" ", 1)[1].startswith("verif hook")]
    except Exception:
        hooks = []
    man = {
        "version": 1,
        "setup_cmd": "cd /verif/sim && CARGO_NET_OFFLINE=true cargo build --offline 2>&1 | tail -3",
        "hooks": {
            "guard": "redproxy_verif",
            "enable": "rustc --cfg redproxy_verif (set with --cfg tokio_unstable in /verif/sim/.cargo/config.toml); the shadow manifest /verif/sim/Cargo.toml builds /repo/src/main.rs against the facade crates",
            "baseline_off_cmd": "cd /repo && cargo test --workspace --no-fail-fast --offline",
            "source_commits": hooks,
            "add_only": True,
        },
        "engines": [{"name": "redproxy-sim", "path": "/verif/sim", "serves_properties": [c["property_id"] for c in checks],
                     "kind_free_text": "deterministic simulator: the unmodified redproxy-rs binary (real main()) on facade crates for tokio::net/fs/process/signal, quinn::Endpoint, axum::Server and nix sockets, with clock_gettime/getrandom interposed; scripted actors; python orchestrator with oracles, shrinking and replay"}],
        "checks": checks,
        "not_applicable": na,
        "notes": "VERIF_SEED selects the master seed (default fixed); VERIF_TIER or --tier selects quick/thorough. Exit 0 held, 1 VIOLATION, 2 harness error.",
    }
    with open(os.path.join(VERIF, "MANIFEST.json"), "w") as f:
        json.dump(man, f, indent=1)
    print("MANIFEST.json: %d checks, %d not applicable" % (len(checks), len(na)))


if __name__ == "__main__":
    main()
