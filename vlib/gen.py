"""Scenario builder: proxy configuration + actors for the simulated world."""
import json
import struct

from . import refcodec as rc
from .core import PKI

PROXY4 = "10.0.0.1"
PROXY6 = "fd00::1"
API_PORT = 8888
TAG_XOR = 0x5A5A5A5A5A5A5A5A


def pki(name):
    return "%s/%s" % (PKI, name)


def op(name, **kw):
    d = {"op": name}
    for k, v in kw.items():
        if v is None:
            continue
        if k in ("hex",) and isinstance(v, (bytes, bytearray)):
            v = bytes(v).hex()
        d[k] = v
    return d


def send(data=b"", fill=None, **kw):
    return op("send", hex=bytes(data).hex() if data else None, fill=list(fill) if fill else None, **kw)


def tag_header(seed, c2s, s2c, flags=0):
    return b"TAG1" + struct.pack("<QQQI", seed, c2s, s2c, flags)


CHAOS_LEVELS = {
    "none": {},
    "mild": {"delay_min_us": 0, "delay_max_us": 2000, "short_write": 100, "short_read": 100, "pending": 50, "glue": 100},
    "heavy": {"delay_min_us": 0, "delay_max_us": 20000, "short_write": 400, "short_read": 400, "pending": 200, "glue": 300},
    "tiny": {"delay_min_us": 0, "delay_max_us": 1000, "short_write": 800, "short_read": 800, "pending": 100},
    "slow": {"delay_min_us": 20000, "delay_max_us": 120000, "short_write": 50, "short_read": 50},
}


def pick_chaos(rng, weights=(("none", 1), ("mild", 3), ("heavy", 3), ("tiny", 2), ("slow", 1))):
    names = [n for n, w in weights for _ in range(w)]
    name = rng.choice(names)
    c = dict(CHAOS_LEVELS[name])
    if name == "tiny":
        c["capacity"] = rng.choice([1, 2, 7, 64, 512])
    elif name != "none":
        c["capacity"] = rng.choice([1 << 20, 1 << 20, 65536, 4096, 512, 64])
    return name, c


class Scenario:
    def __init__(self, rng):
        self.rng = rng
        self.cfg = {
            "apiVersion": "v1alpha",
            "kind": "ProxyDefinition",
            "listeners": [],
            "connectors": [],
            "rules": [],
            "ioParams": {"bufferSize": 65536, "useSplice": False},
            "metrics": {"bind": "0.0.0.0:%d" % API_PORT, "ui": None},
            "accessLog": {"path": "/sim/access.log", "format": "json"},
        }
        self.actors = []
        self.dns = {}
        self.faults = []
        self.cmds = []
        self.meta = {}
        self.net = {"chaos": {}, "spawn_yield": 0}
        self._port = 1100
        self._cli = 0
        self._org = 0
        self._ups = 0
        self.settle_ms = 0
        self.max_ms = 120000
        self.extra = {}

    # ---- address allocation
    def port(self):
        self._port += 1
        return self._port

    def client_ip(self, v6=False):
        self._cli += 1
        return ("fd01::%x" % self._cli) if v6 else "10.1.%d.%d" % (self._cli // 250, 1 + self._cli % 250)

    def origin_ip(self, v6=False):
        self._org += 1
        return ("fd09::%x" % self._org) if v6 else "10.9.%d.%d" % (self._org // 250, 1 + self._org % 250)

    def upstream_ip(self):
        self._ups += 1
        return "10.8.0.%d" % self._ups

    # ---- listeners
    def tls_server(self, client=None):
        t = {"cert": pki("server-good.crt"), "key": pki("server-good.key")}
        if client is not None:
            t["client"] = {"ca": pki("ca1.crt"), "required": client == "required"}
        return t

    def add_http_listener(self, name="http", tls=False, client_policy=None):
        p = self.port()
        l = {"name": name, "type": "http", "bind": "0.0.0.0:%d" % p}
        if tls:
            l["tls"] = self.tls_server(client_policy)
        self.cfg["listeners"].append(l)
        return {"kind": "http", "name": name, "addr": "%s:%d" % (PROXY4, p), "port": p, "tls": bool(tls), "client_policy": client_policy}

    def add_socks_listener(self, name="socks", tls=False, auth=None, client_policy=None, **kw):
        p = self.port()
        l = {"name": name, "type": "socks", "bind": "0.0.0.0:%d" % p}
        if tls:
            l["tls"] = self.tls_server(client_policy)
        if auth is not None:
            l["auth"] = auth
        l.update(kw)
        self.cfg["listeners"].append(l)
        return {"kind": "socks", "name": name, "addr": "%s:%d" % (PROXY4, p), "port": p, "tls": bool(tls), "auth": auth, "client_policy": client_policy}

    def add_reverse_listener(self, name, target, protocol="tcp"):
        p = self.port()
        self.cfg["listeners"].append({"name": name, "type": "reverse", "bind": "0.0.0.0:%d" % p, "target": target, "protocol": protocol})
        return {"kind": "reverse", "name": name, "addr": "%s:%d" % (PROXY4, p), "port": p, "tls": False, "target": target, "protocol": protocol}

    def add_tproxy_listener(self, name="tp"):
        """TPROXY listener (TCP): clients address their destination directly; the simulated netfilter rule diverts the
        connection to this listener, which learns the destination from SO_ORIGINAL_DST (nix facade)."""
        p = self.port()
        self.cfg["listeners"].append({"name": name, "type": "tproxy", "bind": "[::]:%d" % p, "protocol": "tcp"})
        return {"kind": "tproxy", "name": name, "addr": "%s:%d" % (PROXY4, p), "addr6": "[%s]:%d" % (PROXY6, p), "port": p, "tls": False}

    def add_quic_listener(self, name="quic", client_policy=None):
        p = self.port()
        self.cfg["listeners"].append({"name": name, "type": "quic", "bind": "0.0.0.0:%d" % p, "tls": self.tls_server(client_policy)})
        return {"kind": "quic", "name": name, "addr": "%s:%d" % (PROXY4, p), "port": p, "tls": True, "client_policy": client_policy}

    # ---- connectors (each returns an info dict; fake upstream actors are added on demand)
    def tls_client(self, insecure=False, ca="ca1.crt", client_cert=None):
        t = {"insecure": insecure}
        if ca:
            t["ca"] = pki(ca)
        if client_cert:
            t["auth"] = {"cert": pki(client_cert + ".crt"), "key": pki(client_cert + ".key")}
        return t

    def add_direct(self, name="direct", **kw):
        c = {"name": name, "type": "direct"}
        c.update(kw)
        self.cfg["connectors"].append(c)
        return {"kind": "direct", "name": name}

    def _upstream_host(self, tls, by_name=True):
        ip = self.upstream_ip()
        if tls and by_name:
            name = "upstream.sim" if "upstream.sim" not in self.dns else "u%d.upstream.sim" % self._ups
            # certificates only carry upstream.sim: keep one TLS upstream per scenario by name
            self.dns[name] = [ip]
            return name, ip
        return ip, ip

    def add_http_connector(self, name="uhttp", tls=False, tls_cfg=None, server_cert="server-good"):
        host, ip = self._upstream_host(tls)
        p = self.port()
        c = {"name": name, "type": "http", "server": host, "port": p}
        if tls:
            c["tls"] = tls_cfg or self.tls_client()
        self.cfg["connectors"].append(c)
        srv = {"essential": True, "kind": "tcp_server", "id": "up-" + name, "bind": "%s:%d" % (ip, p), "conns": [], "default_ops": None}
        if tls:
            srv["tls"] = {"cert": pki(server_cert + ".crt"), "key": pki(server_cert + ".key")}
        self.actors.append(srv)
        return {"kind": "http", "name": name, "server": srv, "tls": tls, "ip": ip, "port": p}

    def add_socks_connector(self, name="usocks", version=5, auth=None, tls=False, tls_cfg=None, server_cert="server-good"):
        host, ip = self._upstream_host(tls)
        p = self.port()
        c = {"name": name, "type": "socks", "server": host, "port": p, "version": version}
        if auth:
            c["auth"] = {"username": auth[0], "password": auth[1]}
        if tls:
            c["tls"] = tls_cfg or self.tls_client()
        self.cfg["connectors"].append(c)
        srv = {"essential": True, "kind": "tcp_server", "id": "up-" + name, "bind": "%s:%d" % (ip, p), "conns": [], "default_ops": None}
        if tls:
            srv["tls"] = {"cert": pki(server_cert + ".crt"), "key": pki(server_cert + ".key")}
        self.actors.append(srv)
        return {"kind": "socks", "name": name, "server": srv, "tls": tls, "version": version, "auth": auth, "ip": ip, "port": p}

    def add_quic_connector(self, name="uquic", inline_udp=False, insecure=True, server_cert="server-good"):
        ip = self.upstream_ip()
        p = self.port()
        c = {"name": name, "type": "quic", "server": ip, "port": p, "tls": self.tls_client(insecure=insecure), "bind": "0.0.0.0:0", "inlineUdp": inline_udp}
        self.cfg["connectors"].append(c)
        srv = {"essential": True, "kind": "quic_server", "id": "up-" + name, "bind": "%s:%d" % (ip, p), "streams": [], "default_ops": None,
               "tls": {"cert": pki(server_cert + ".crt"), "key": pki(server_cert + ".key")}}
        self.actors.append(srv)
        return {"kind": "quic", "name": name, "server": srv, "tls": True, "ip": ip, "port": p}

    def add_chain_connector(self, name, via_listener, kind=None):
        """A connector that points at one of the proxy's own listeners (two hops through real code)."""
        kind = kind or via_listener["kind"]
        c = {"name": name, "type": kind, "server": "127.0.0.1", "port": via_listener["port"]}
        if kind == "quic":
            c["tls"] = self.tls_client(insecure=True)
            c["bind"] = "0.0.0.0:0"
        elif via_listener.get("tls"):
            c["tls"] = self.tls_client(insecure=True)
        self.cfg["connectors"].append(c)
        return {"kind": "chain", "name": name, "via": via_listener, "hop": kind}

    def add_loadbalance(self, name, members, algo=None):
        c = {"name": name, "type": "loadbalance", "connectors": [m["name"] for m in members]}
        if algo is not None:
            c["algorithm"] = algo
        self.cfg["connectors"].append(c)
        return {"kind": "lb", "name": name, "members": members}

    def rule(self, target, filter=None):
        r = {"target": target}
        if filter is not None:
            r["filter"] = filter
        self.cfg["rules"].append(r)

    # ---- client handshakes: returns (ops up to and including the proxy's reply, trailing bytes hook)
    def client_handshake(self, linfo, host, port, early=b"", variant=None, creds=None, udp=False):
        """ops that perform the client-side handshake on `linfo` for target host:port.
        `early` bytes are glued behind the last handshake bytes in the same write."""
        rng = self.rng
        k = linfo["kind"]
        if k in ("http", "quic"):
            target = ("[%s]:%d" % (host, port)) if (isinstance(host, str) and ":" in host) else "%s:%d" % (host, port)
            hdrs = [("Host", target)]
            if udp:
                hdrs += [("Proxy-Protocol", "udp")]
            req = rc.http_connect(target, hdrs)
            return [send(req + early), op("recv_http_head", label="reply")], "http"
        if k == "socks":
            variant = variant or rng.choice(["5", "5", "5p", "4"])
            if variant == "4":
                is_v4 = isinstance(host, str) and host.count(".") == 3 and all(x.isdigit() for x in host.split("."))
                if isinstance(host, str) and ":" in host and rng.random() < 0.5:
                    variant = "5"
                else:
                    # (an IPv6 literal fits the SOCKS4a name field like any other text: the resolver reads it as the address)
                    req = rc.socks4_request(1, host, port, creds[0] if creds else b"u")
                    return [send(req + early), op("recv_n", n=8, label="reply")], "socks4" if is_v4 else "socks4a"
            cmd = 3 if udp else 1
            if creds:
                greet = rc.socks5_greeting([2])
                auth = rc.socks5_userpass(*creds)
            else:
                greet = rc.socks5_greeting([0])
                auth = b""
            req = rc.socks5_request(cmd, host, port)
            if variant == "5p":  # fully pipelined
                ops = [send(greet + auth + req + early), op("recv_n", n=2, label="method")]
                if creds:
                    ops.append(op("recv_n", n=2, label="authstatus"))
                ops.append(op("recv_socks5_reply", label="reply"))
                return ops, "socks5"
            ops = [send(greet), op("recv_n", n=2, label="method")]
            if creds:
                ops += [send(auth), op("recv_n", n=2, label="authstatus")]
            ops += [send(req + early), op("recv_socks5_reply", label="reply")]
            return ops, "socks5"
        if k == "reverse":
            return ([send(early)] if early else []), "reverse"
        if k == "tproxy":
            # no handshake: the destination is the address the client connects to (add_client picks it up)
            linfo["_dst"] = (host, port)
            return ([send(early)] if early else []), "reverse"
        raise ValueError(k)

    def client_tls(self, linfo, cert=None):
        if not linfo.get("tls"):
            return None
        t = {"sni": "proxy.sim", "ca": pki("ca1.crt")}
        if cert:
            t["cert"] = pki(cert + ".crt")
            t["key"] = pki(cert + ".key")
        return t

    def add_client(self, cid, linfo, ops, start_ms=10, src=None, chaos=None, tls_cert=None, background=False, v6=False):
        src = src or self.client_ip(v6)
        if linfo["kind"] == "quic":
            a = {"kind": "quic_client", "id": cid, "bind": "%s:%d" % (src, 5000 + len(self.actors)), "dst": linfo["addr"], "start_ms": start_ms,
                 "tls": {"sni": "proxy.sim", "ca": pki("ca1.crt"), **({"cert": pki(tls_cert + ".crt"), "key": pki(tls_cert + ".key")} if tls_cert else {})},
                 "ops": [op("open_bi", ops=ops)], "background": background}
        else:
            dst = linfo["addr"]
            if v6:
                dst = "[%s]:%d" % (PROXY6, linfo["port"])
            a = {"kind": "tcp_client", "id": cid, "src": src, "dst": dst, "start_ms": start_ms, "ops": ops, "background": background}
            if linfo["kind"] == "tproxy":
                host, port = linfo["_dst"]
                is6 = ":" in host
                if is6 and not v6:
                    a["src"] = self.client_ip(True)
                a["dst"] = ("[%s]:%d" if is6 else "%s:%d") % (host, port)
                a["via"] = linfo["addr6"] if is6 else linfo["addr"]
            t = self.client_tls(linfo, tls_cert)
            if t:
                a["tls"] = t
            if chaos is not None:
                a["chaos"] = chaos
        self.actors.append(a)
        return a

    # ---- upstream-side handshake scripts (what the fake upstream does before acting as origin)
    def upstream_handshake(self, cinfo, reply_ok=True, reply_atyp=1):
        k = cinfo["kind"]
        if k in ("http", "quic"):
            resp = b"HTTP/1.1 200 Connection established\r\n\r\n" if reply_ok else b"HTTP/1.1 403 Forbidden\r\nContent-Length: 0\r\n\r\n"
            return [op("recv_http_head", label="upreq"), send(resp)]
        if k == "socks":
            if cinfo["version"] == 4:
                return [op("recv_socks4_request", label="upreq"), send(bytes([0, 90 if reply_ok else 91, 0, 0, 0, 0, 0, 0]))]
            nm = 2 if cinfo.get("auth") else 1
            return [op("recv_n", n=2 + nm, label="upgreet"), send(b"\x05\x00"), op("recv_socks5_reply", label="upreq"),
                    send(bytes([5, 0 if reply_ok else 5, 0]) + {1: bytes([1, 0, 0, 0, 0]), 4: bytes([4]) + bytes(16), 3: bytes([3, 9]) + b"bound.sim"}[reply_atyp] + bytes([0, 0]))]
        return []

    def add_origin(self, addr, conns=None, default_ops=None, oid=None, tls=None, **kw):
        a = {"essential": True, "kind": "tcp_server", "id": oid or ("origin-" + addr), "bind": addr, "conns": conns or [], "default_ops": default_ops}
        if tls:
            a["tls"] = tls
        a.update(kw)
        self.actors.append(a)
        return a

    def api_call(self, cid, method, path, body=None, start_ms=0, **kw):
        req = "%s %s HTTP/1.1\r\nHost: api\r\nConnection: close\r\n" % (method, path)
        if body is not None:
            if not isinstance(body, (bytes, str)):
                body = json.dumps(body)
            if isinstance(body, str):
                body = body.encode()
            req += "Content-Type: application/json\r\nContent-Length: %d\r\n" % len(body)
        req = req.encode() + b"\r\n" + (body or b"")
        a = {"essential": True, "kind": "tcp_client", "id": cid, "src": kw.pop("src", "10.7.0.1"), "dst": "%s:%d" % (PROXY4, API_PORT), "start_ms": start_ms,
             "ops": [send(req), op("recv_eof", keep=kw.pop("keep", 1 << 20), timeout_ms=kw.pop("timeout_ms", 30000))]}
        a.update(kw)
        self.actors.append(a)
        return a

    def plan(self, **kw):
        p = {
            "net": self.net,
            "files": {"/sim/config.yaml": json.dumps(self.cfg, indent=1)},
            "dns": self.dns,
            "cmds": self.cmds,
            "actors": self.actors,
            "faults": self.faults,
            "max_ms": self.max_ms,
            "settle_ms": self.settle_ms,
            "dump_files": ["/sim/access.log"],
            "meta": self.meta,
        }
        p.update(self.extra)
        p.update(kw)
        return p


# ---------------------------------------------------------------------------------------
# result helpers

class Result:
    """Indexed view of the harness output."""

    def __init__(self, out):
        self.out = out
        self.res = out.get("result") or {}
        self.records = self.res.get("records", [])
        self.events = self.res.get("events", [])
        self.by_conn = {}
        for r in self.records:
            c = r.get("conn")
            if c is not None:
                self.by_conn.setdefault(c, []).append(r)

    @property
    def ok(self):
        return self.out.get("result") is not None

    def ops(self, conn):
        return [r for r in self.by_conn.get(conn, []) if "op" in r]

    def op_by_label(self, conn, label):
        for r in self.by_conn.get(conn, []):
            if r.get("label") == label and "op" in r:
                return r
        return None

    def op_by_index(self, conn, i):
        for r in self.by_conn.get(conn, []):
            if r.get("i") == i and "op" in r:
                return r
        return None

    def connect(self, conn):
        for r in self.by_conn.get(conn, []):
            if "connect" in r:
                return r
        for r in self.records:
            if r.get("actor") == conn and "connect" in r:
                return r
        return None

    def end(self, conn):
        for r in self.by_conn.get(conn, []):
            if r.get("end"):
                return r
        return None

    def accepts(self, actor):
        return [r for r in self.records if r.get("actor") == actor and r.get("accept") == "ok"]

    def conns_of(self, actor):
        seen = []
        for r in self.records:
            if r.get("actor") == actor and r.get("conn") and r["conn"] not in seen:
                seen.append(r["conn"])
        return seen

    def panics(self):
        return self.res.get("panics", []) or [{"loc": l} for l in self.out.get("panic_lines", [])]

    def history(self, conn):
        """Parse the JSON body of an API reply recorded on `conn`."""
        r = None
        for x in self.ops(conn):
            if x["op"] == "recv_eof":
                r = x
        if r is None:
            return None
        data = bytes.fromhex(r["hex"])
        try:
            code, hdrs, body = rc.parse_http_response(data)
        except rc.ParseError:
            return None
        if rc.header(hdrs, "transfer-encoding", "").lower() == "chunked":
            body = dechunk(body)
        return code, hdrs, body


def dechunk(b):
    out = b""
    while b:
        i = b.find(b"\r\n")
        if i < 0:
            break
        try:
            n = int(b[:i].split(b";")[0], 16)
        except ValueError:
            break
        if n == 0:
            break
        out += b[i + 2:i + 2 + n]
        b = b[i + 2 + n + 2:]
    return out
