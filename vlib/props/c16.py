"""C16 — every connection is accounted for exactly once with a truthful record."""
import json

import os
from .. import gen as G, refcodec as rc
from ..core import Violation
from ..gen import Scenario, op, send, tag_header, TAG_XOR
from .c01 import reply_ok

ID = "C16"
BUDGET = {"quick": 45, "thorough": 700}
MAX_RUNS = {"quick": 5000, "thorough": 200000}
TECHNIQUE = "deterministic simulation with fault injection: mixed connection outcomes, log rotation and API polls at seeded instants; history/log/live compared with the harness' ground truth"
RULE = ("plans: 3-40 connections mixing successful tunnels (known payload sizes, early data), denied, upstream-refused, aborted mid-handshake, aborted mid-transfer, "
        "TLS handshake failures, bad requests and UDP associations; historySize in {0,1,3,100}; POST /logrotate and SIGUSR1 at seeded instants; /live polled at seeded "
        "instants; buffered and splice I/O; non-trivial = at least two different outcome kinds and >= 3 connections; distinct = event-order hash")
RULE_MORE = 'Later additions: crowds of 130-220 connections ending within one collector period; tunnels through upstream proxies that glue a banner to their reply; clients that dawdle for seconds in the middle of their request (listed live all the while).'
LEVEL_TEXT = ("seeded exploration of the real registry, GC task, access-log task and API: the harness knows every connection it opened, what it asked for, how many payload "
              "bytes went each way and when it ended, and checks ids, exactly-once logging, bounded newest-first history, the lifecycle automaton with one terminal state, "
              "truthful listener/source/target/connector fields, byte counters and /live membership at every poll")
LEVEL_NOTE = "ground truth comes from the harness' own sockets; polls within 1.2 virtual s of an open/close are not judged for /live (GC period 1 s)"
ASSUMPTIONS = ["the access log is only guaranteed on disk after a rotation (the writer buffers): the final rotation is part of every plan"]

KINDS = [("ok", 6), ("ok-early", 3), ("ok-banner", 3), ("deny", 2), ("refused", 2), ("abort-hs", 2), ("abort-mid", 2), ("badreq", 1), ("tlsfail", 1), ("udp", 1), ("idle", 1)]
AUTOMATON = {
    "ClientConnected": {"ClientRequested", "ErrorOccured"},
    "ClientRequested": {"ServerConnecting", "ErrorOccured"},
    "ServerConnecting": {"Connected", "ErrorOccured"},
    "Connected": {"ClientShutdown", "ServerShutdown", "ErrorOccured", "Terminated"},
    "ClientShutdown": {"ServerShutdown", "ErrorOccured", "Terminated"},
    "ServerShutdown": {"ClientShutdown", "ErrorOccured", "Terminated"},
}


def wchoice(rng, items):
    return rng.choice([n for n, w in items for _ in range(w)])


def gen(rng, tier, i):
    sc = Scenario(rng)
    splice = rng.random() < 0.15
    if splice:
        sc.net["backend"] = "kernel"
        cname = "kernel"
        short = rng.choice([0, 100, 400])
        if short:
            sc.net["chaos"] = {"short_write": short}   # seeded short splice(2) counts
            cname = "kernel-short"
    else:
        cname, chaos = G.pick_chaos(rng, weights=(("none", 2), ("mild", 3)))
        if chaos:
            chaos["capacity"] = 1 << 20
        sc.net["chaos"] = chaos
        sc.net["spawn_yield"] = rng.choice([0, 300])
    sc.net["lock_yield"] = rng.choice([0, 100, 500])   # seeded scheduling points at the asynchronous locks
    hsize = rng.choice([0, 1, 3, 100])
    sc.cfg["metrics"]["historySize"] = hsize
    sc.cfg["ioParams"] = {"bufferSize": rng.choice([512, 4096, 65536]), "useSplice": bool(splice)}
    sc.cfg["timeouts"] = {"idle": 5, "udp": 3}
    lh = sc.add_http_listener("l-http")
    ls = sc.add_socks_listener("l-socks")
    lt = None if splice else sc.add_http_listener("l-tls", tls=True)
    sc.add_direct("d")
    dead_ip = sc.origin_ip()
    sc.rule("deny", 'request.target.port == 9')
    # tunnels to port 7 go through an upstream HTTP proxy, to port 8 through an upstream SOCKS5 proxy (origin speaks first there)
    uh = sc.add_http_connector("uh")
    us = sc.add_socks_connector("us", version=5)
    sc.rule("uh", 'request.target.port == 7')
    sc.rule("us", 'request.target.port == 8')
    sc.rule("d")
    oip, oport = sc.origin_ip(), sc.port()
    sc.add_origin("%s:%d" % (oip, oport), default_ops=[op("serve_tagged", timeout_ms=120000)], oid="origin")
    sc.actors.append({"essential": True, "kind": "udp", "id": "uorigin", "bind": "%s:%d" % (oip, oport + 1), "echo": True, "ops": []})
    n = rng.choice([3, 5, 8, 12, 20, 40]) if tier == "thorough" else rng.choice([3, 5, 8, 12, 20])
    conns = []
    span = rng.choice([500, 3000, 8000])
    # a crowd: far more connections ending within one collection period than any queue between the collector and the log holds
    crowd = not splice and rng.random() < 0.03
    if crowd:
        n = rng.choice([130, 220])
        span = rng.choice([100, 600])
        sc.cfg["metrics"]["historySize"] = hsize = rng.choice([3, 1000])
    for k in range(n):
        kind = wchoice(rng, KINDS)
        if crowd:
            kind = rng.choice(["deny", "deny", "badreq", "ok", "refused"])
        if kind == "tlsfail" and lt is None:
            kind = "badreq"
        if splice and kind in ("abort-mid",):
            kind = "ok"
        li = rng.choice([lh, ls]) if kind not in ("tlsfail",) else lt
        if kind == "ok" and lt is not None and rng.random() < 0.2:
            li = lt
        if kind == "udp":
            li = ls
        start = 10 + rng.randint(0, span)
        cid = "k%d" % k
        c = {"cid": cid, "kind": kind, "listener": li["name"], "start": start}
        variant = rng.choice(["5", "5p", "4"]) if li["kind"] == "socks" else None
        if kind == "ok-banner":
            free = [x for x in (uh, us) if not x["server"]["conns"]]
            if not free:
                kind = "ok"   # one such tunnel per upstream proxy keeps the far end attributable (scripts are matched by accept order)
                c["kind"] = "ok"
        if kind == "ok-banner":
            # the upstream proxy glues the origin's first bytes to its success reply; then the client's bytes go up
            ci = rng.choice(free)
            port = 7 if ci is uh else 8
            seed = rng.getrandbits(60) | 1
            c2s, s2c = rng.choice([0, 1, 700, 9000]), rng.choice([1, 126, 700, 9000])
            hs, proto = sc.client_handshake(li, oip, port, variant=variant)
            ops = hs + [op("expect", fill=[seed ^ TAG_XOR, s2c], timeout_ms=120000, label="s2c"), op("send", fill=[seed, c2s], timeout_ms=120000), op("shutdown"),
                        op("recv_eof", timeout_ms=120000, label="eof")]
            hsu = sc.upstream_handshake(ci)
            glue = rng.random() < 0.7
            last = [o for o in hsu if o["op"] == "send"][-1]
            if glue:
                last["fill"] = [seed ^ TAG_XOR, s2c]
                tail = []
            else:
                tail = [op("sleep", ms=30), op("send", fill=[seed ^ TAG_XOR, s2c])]
            ci["server"]["conns"].append(hsu + tail + [op("recv_eof", timeout_ms=120000, label="banner-c2s", keep=0), op("shutdown")])
            c.update({"c2s": c2s, "s2c": s2c, "proto": proto, "target": "%s:%d" % (oip, port), "connector": ci["name"], "seed": seed, "banner": True, "banner_conn": "up-%s#%d" % (ci["name"], len(ci["server"]["conns"]) - 1)})
        elif kind in ("ok", "ok-early", "abort-mid", "idle"):
            seed = rng.getrandbits(60) | 1
            c2s, s2c = rng.choice([0, 1, 700, 9000, 70000]), rng.choice([0, 1, 700, 9000, 70000])
            if crowd:
                c2s, s2c = rng.choice([0, 1, 700]), rng.choice([0, 1, 700])
            hdr = tag_header(seed, c2s, s2c)
            early = kind == "ok-early"
            hs, proto = sc.client_handshake(li, oip, oport, early=hdr if early else b"", variant=variant)
            w = ([] if early else [send(hdr)]) + [op("send", fill=[seed, c2s], timeout_ms=120000)]
            r = [op("expect", fill=[seed ^ TAG_XOR, s2c], timeout_ms=120000, label="s2c")]
            if kind == "abort-mid":
                cut = rng.randint(0, c2s)
                w = ([] if early else [send(hdr)]) + [op("send", fill=[seed, cut], timeout_ms=120000), op("sleep", ms=rng.choice([0, 5, 50]))]
                ops = hs + w + [op("reset", label="abort")]
                c.update({"c2s_max": 32 + cut, "s2c_max": s2c})
            elif kind == "idle":
                ops = hs + [op("par", w=w, r=r + [op("recv_eof", timeout_ms=60000, label="eof")])]
                c.update({"c2s": 32 + c2s, "s2c": s2c, "idle": True})
            else:
                ops = hs + [op("par", w=w + [op("shutdown")], r=r + [op("recv_eof", timeout_ms=120000, label="eof")])]
                c.update({"c2s": 32 + c2s, "s2c": s2c})
            c.update({"proto": proto, "target": "%s:%d" % (oip, oport), "connector": "d", "seed": seed})
        elif kind == "deny":
            hs, proto = sc.client_handshake(li, oip, 9, variant=variant)
            ops = [dict(o, on_fail="continue") for o in hs] + [op("recv_eof", timeout_ms=6000, label="eof")]
            c.update({"proto": proto, "target": "%s:9" % oip, "connector": None, "error": True})
        elif kind == "refused":
            hs, proto = sc.client_handshake(li, dead_ip, 81, variant=variant)
            ops = [dict(o, on_fail="continue") for o in hs] + [op("recv_eof", timeout_ms=6000, label="eof")]
            c.update({"proto": proto, "target": "%s:81" % dead_ip, "connector": "d", "error": True})
        elif kind == "abort-hs":
            hs, proto = sc.client_handshake(li, oip, oport, variant="5p" if li["kind"] == "socks" else None)
            whole = bytes.fromhex(hs[0]["hex"])
            cut = rng.randint(0, len(whole) - 1)
            # (the long pauses: a client that dawdles in the middle of its request exists, and is listed, all the while)
            ops = ([send(whole[:cut])] if cut else []) + [op("sleep", ms=rng.choice([0, 10, 300, 4000, 9000])), op("close")]
            c.update({"proto": proto, "target": None, "connector": None, "hsfail": True})
        elif kind == "badreq":
            junk = rng.choice([b"GET / HTTP/1.1\r\nHost: x\r\n\r\n", b"\x07\x01\x00", b"CONNECT nohostport HTTP/1.1\r\n\r\n", b"\r\n\r\n", b"\x05\x01\x00\x05\x01\x00\x09"])
            ops = [send(junk), op("recv_eof", timeout_ms=6000, label="eof")]
            c.update({"proto": "raw", "target": None, "connector": None, "hsfail": True})
        elif kind == "tlsfail":
            ops = [send(b"\x16\x03\x01\x00\x05hello-this-is-not-tls"), op("recv_eof", timeout_ms=6000, label="eof")]
            c.update({"proto": "raw", "target": None, "connector": None, "never_accepted": True})
        elif kind == "udp":
            ops = [send(rc.socks5_greeting([0])), op("recv_n", n=2, label="method"), send(rc.socks5_request(3, "0.0.0.0", 0)), op("recv_socks5_reply", label="reply"),
                   op("set", flag="assoc-" + cid), op("recv_eof", timeout_ms=60000, label="eof")]
            c.update({"proto": "socks5", "target": "0.0.0.0:0", "connector": "d", "udp": True})
        a = sc.add_client(cid, li, ops, start_ms=start)
        if kind == "tlsfail":
            a.pop("tls", None)
        if kind == "udp":
            uip = a["src"]
            sc.actors.append({"kind": "udp", "id": "u" + cid, "bind": "%s:7100" % uip, "ops": [
                op("wait", flag="assoc-" + cid, timeout_ms=30000),
                op("send", to="socks5reply:" + cid, hex=rc.socks5_udp_wrap(oip, oport + 1, b"ping-" + cid.encode()).hex()), op("sleep", ms=200),
                op("send", to="socks5reply:" + cid, hex=rc.socks5_udp_wrap(oip, oport + 1, b"pong-" + cid.encode()).hex()), op("sleep", ms=100)]})
        conns.append(c)
    end = 10 + span + 20000
    # log rotations, signals, polls
    for _ in range(rng.randint(0, 3)):
        t = rng.randint(0, end)
        if rng.random() < 0.5:
            sc.faults.append({"at_ms": t, "kind": "signal", "sig": 10})
        else:
            sc.api_call("rot%d" % t, "POST", "/api/logrotate", start_ms=t)
    polls = []
    # (no /live polls on the kernel lane: there a poll that meets a stalled handshake wedges the proxy until the next
    # timer of the *harness* fires, because I/O readiness is only noticed when the paused clock steps; the underlying
    # defect - the API blocking the data plane - is C14's subject and is judged on the in-memory lane)
    for k in range(rng.randint(1, 6) if not splice else 0):
        t = rng.randint(0, 10 + span + 9000)
        sc.api_call("live%d" % k, "GET", "/api/live", start_ms=t)
        polls.append({"cid": "live%d" % k, "t": t})
    sc.api_call("finalrot", "POST", "/api/logrotate", start_ms=end)
    sc.api_call("hist", "GET", "/api/history", start_ms=end + 500)
    sc.settle_ms = 1000
    sc.meta = {"cls": "n%d/h%d/%s" % (n, hsize, "splice" if splice else "buf"), "cfgkey": "n%d/h%d/%s/%s" % (n, hsize, cname, "-".join(sorted(set(c["kind"] for c in conns)))),
               "conns": conns, "hsize": hsize, "polls": polls, "splice": bool(splice), "keep_ops": True, "no_generic_fill_shrink": True}
    sc.max_ms = end + 60000
    return sc.plan(want_events=False)


def oracle(plan, out):
    R = G.Result(out)
    meta = plan["meta"]
    V = []
    io = "splice" if meta["splice"] else "buffered"

    def v(clause, text, **d):
        V.append(Violation(ID, clause, "C16/%s/%s" % (clause, io), text, d))

    if out["hung"] or not R.ok:
        v("crash", "process ended or hung: exit=%s %s" % (out["exit"], (out["stderr"] or "")[-300:]))
        return V
    for p in R.panics():
        v("panic", "panic at %s: %s" % (p.get("loc"), p.get("msg", "")))
    log_text = R.res.get("files", {}).get("/sim/access.log", "")
    log = []
    for ln in log_text.split("\r\n"):
        if ln.strip():
            try:
                log.append(json.loads(ln))
            except ValueError:
                v("log-corrupt", "access log line is not JSON: %r" % ln[:120])
    hist = R.history("hist")
    hrecs = None
    if hist and hist[0] == 200:
        try:
            hrecs = json.loads(hist[2])
        except ValueError:
            pass
    if hrecs is None:
        v("api-failed", "GET /api/history did not return JSON: %s" % (hist and hist[0]))
        return V
    ids = [r["id"] for r in log]
    if len(ids) != len(set(ids)):
        dup = sorted(set(x for x in ids if ids.count(x) > 1))
        v("logged-twice", "connection ids %s appear more than once in the access log" % dup[:5])
    hids = [r["id"] for r in hrecs]
    if len(hids) != len(set(hids)):
        v("history-duplicate", "ids %s appear more than once in the history" % sorted(set(x for x in hids if hids.count(x) > 1))[:5])
    if len(hrecs) > meta["hsize"]:
        v("history-too-long", "history holds %d records, historySize is %d" % (len(hrecs), meta["hsize"]))
    # newest first: by the time of the terminal/last state
    def last_time(r):
        return r["state"][-1]["time"] if r.get("state") else 0
    by_src = {}
    for r in log:
        by_src.setdefault(r.get("source"), []).append(r)
    present = set(a["id"] for a in plan["actors"])
    for c in meta["conns"]:
        cid = c["cid"]
        if cid not in present:
            continue
        conn = R.connect(cid)
        if conn is None or conn.get("connect") != "ok":
            continue
        src = conn.get("local")
        recs = by_src.get(src, [])
        desc = "%s (%s on %s from %s)" % (cid, c["kind"], c["listener"], src)
        if c.get("never_accepted"):
            if recs:
                v("phantom-record", "%s never completed its TLS handshake but has %d log records" % (desc, len(recs)))
            continue
        if len(recs) == 0:
            v("not-logged", "%s was accepted but never appears in the access log" % desc)
            continue
        if len(recs) > 1:
            v("logged-twice", "%s appears %d times in the access log" % (desc, len(recs)))
        r = recs[0]
        if r.get("listener") != c["listener"]:
            v("wrong-field", "%s: listener recorded as %s" % (desc, r.get("listener")))
        if c.get("target") is not None and r.get("target") != c["target"]:
            v("wrong-field", "%s: target recorded as %s, requested %s" % (desc, r.get("target"), c["target"]))
        if c.get("target") is not None and c.get("connector") != r.get("connector") and not c.get("hsfail"):
            v("wrong-field", "%s: connector recorded as %s, expected %s" % (desc, r.get("connector"), c.get("connector")))
        states = [s["state"] for s in r.get("state", [])]
        okpath = bool(states) and states[0] == "ClientConnected"
        for a, b in zip(states, states[1:]):
            if b not in AUTOMATON.get(a, set()):
                okpath = False
        if not okpath:
            v("bad-lifecycle", "%s: state list %s is not a path of the connection lifecycle" % (desc, states))
        term = [s for s in states if s in ("Terminated", "ErrorOccured")]
        if len(term) != 1 or states[-1] not in ("Terminated", "ErrorOccured"):
            why = "handshake-failed" if c.get("hsfail") else c["kind"]
            V.append(Violation(ID, "no-terminal-state", "C16/no-terminal-state/%s" % why,
                               "%s: state list %s does not end in exactly one terminal state" % (desc, states)))
        elif states[-1] == "ErrorOccured" and not r.get("error"):
            v("error-without-text", "%s: ended in ErrorOccured but carries no error text" % desc)
        if c.get("error") and states and states[-1] == "Terminated":
            v("wrong-terminal", "%s: a refused/failed request is recorded as finished normally" % desc)
        # byte counters of TCP tunnels
        if "c2s" in c and not c.get("udp"):
            if not reply_ok(c["proto"], R.op_by_label(cid, "reply")):
                continue
            e = R.op_by_label(cid, "s2c")
            if e is None or e["res"] != "ok":
                continue
            # ... and only when the origin verifiably received every client byte (a tunnel torn down early,
            # e.g. by an idle timeout, has no well-defined "bytes relayed" from the harness' side)
            if c.get("banner"):
                # upstream connections are matched to scripts by accept order: only judge when exactly this tunnel's
                # far end saw exactly this tunnel's byte count
                b = [x for x in R.records if x.get("label") == "banner-c2s" and x.get("res") == "eof@%d" % c["c2s"]]
                if len([x for x in meta["conns"] if x.get("banner") and x["connector"] == c["connector"]]) != 1 or not b:
                    continue
            else:
                srv = [x for x in R.records if x.get("op") == "serve_tagged" and x.get("tag_seed") == c.get("seed")]
                if not srv:
                    continue
                e0 = R.op_by_index(srv[0]["conn"], srv[0]["i"] + "r0")
                if e0 is None or e0["res"] != "ok":
                    continue
            cb = r.get("client_stat", {}).get("read_bytes")
            sb = r.get("server_stat", {}).get("read_bytes")
            if cb != c["c2s"] or sb != c["s2c"]:
                early = "early" if c["kind"] == "ok-early" else ("upstream-early" if c.get("banner") else "plain")
                V.append(Violation(ID, "wrong-byte-count", "C16/wrong-byte-count/%s/%s" % (early, io),
                                   "%s: relayed %d bytes client->server and %d server->client, record says %s and %s" % (desc, c["c2s"], c["s2c"], cb, sb)))
    # history is newest first and holds the newest records of the log. The record's own terminal-state timestamp is the
    # measure; on the unchanged tree drop order and terminal-state order coincide to the millisecond on the in-memory lane
    # (tolerance 50 ms for implementations that release the record slightly later); on the kernel lane readiness is only
    # noticed when the paused clock steps, so only inversions of more than 2.5 s are judged there.
    tol = 2500 if meta["splice"] else 50
    terminal = lambda r: bool(r.get("state")) and r["state"][-1]["state"] in ("Terminated", "ErrorOccured")
    times = [last_time(r) for r in hrecs if terminal(r)]
    if any(a + tol < b for a, b in zip(times, times[1:])):
        v("history-order", "history is not newest-first: terminal-state times %s" % times[:8])
    if hrecs and len(hrecs) >= meta["hsize"] and times:
        oldest_kept = min(times)
        hset = set(hids)
        newer_dropped = [r["id"] for r in log if terminal(r) and r["id"] not in hset and last_time(r) > oldest_kept + tol]
        if newer_dropped:
            v("history-keeps-older", "the bounded history dropped records %s although it keeps an older one (terminal-state time %d)" % (newer_dropped[:5], oldest_kept))
    logged = set(ids)
    for r in hrecs:
        if r["id"] not in logged:
            v("history-not-logged", "history record id %d (%s) is not in the access log" % (r["id"], r.get("source")))
    # /live membership
    for p in meta["polls"]:
        h = R.history(p["cid"])
        if not h or h[0] != 200:
            continue
        try:
            live = json.loads(h[2])
        except ValueError:
            continue
        op_rec = R.ops(p["cid"])
        tpoll = op_rec[-1]["t1"] if op_rec else p["t"] * 1000
        live_src = set(r.get("source") for r in live)
        for c in meta["conns"]:
            conn = R.connect(c["cid"])
            if conn is None or conn.get("connect") != "ok" or c.get("never_accepted") or c["listener"] == "l-tls":
                continue
            end = R.end(c["cid"])
            t_open = conn["t1"]
            t_close = end["t"] if end else None
            src = conn.get("local")
            if t_close is not None and tpoll > t_close + 8_000_000 and src in live_src:
                v("live-after-close", "%s from %s is still listed as live %.1fs after it ended" % (c["cid"], src, (tpoll - t_close) / 1e6))
            margin = 2_500_000 if meta["splice"] else 50_000  # the kernel lane notices an accept only when the clock steps
            if c["kind"] in ("ok", "ok-early", "idle", "abort-hs") and t_close is not None and t_open + margin < tpoll < t_close - margin and src not in live_src:
                v("live-missing", "%s from %s is open (%.3f..%.3fs) but missing from /live polled at %.3fs" % (c["cid"], src, t_open / 1e6, t_close / 1e6, tpoll / 1e6))
    return V


def probes(plan, out):
    meta = plan["meta"]
    kinds = set(c["kind"] for c in meta["conns"])
    return {"nontrivial": len(kinds) >= 2 and len(meta["conns"]) >= 3, "history_overflow": len(meta["conns"]) > meta["hsize"], "splice": meta["splice"],
            "handshake_failures": sum(1 for c in meta["conns"] if c.get("hsfail")), "early_data": sum(1 for c in meta["conns"] if c["kind"] == "ok-early"),
            "udp_sessions": sum(1 for c in meta["conns"] if c.get("udp")), "rotations": len(plan.get("faults", []))}
