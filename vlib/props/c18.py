"""C18 — bad configuration is an error, never a crash; accepted configuration runs."""
import copy
import json

from .. import core, gen as G, refcodec as rc
from ..core import Violation
from ..gen import Scenario, op, send, pki

ID = "C18"
BUDGET = {"quick": 45, "thorough": 900}
MAX_RUNS = {"quick": 5000, "thorough": 300000}
TECHNIQUE = "deterministic simulation (hermetic whole-system runs through the real main()): mutated configuration trees, each loaded with --test and started for real with one probe per listener; exit-with-error-or-run oracle with panic hook and watchdog"
RULE = ("plans: a generated valid configuration (all listener/connector kinds, TLS, auth, load balancers, rules, access log script format, metrics, timeouts, ioParams) with "
        "0-3 tree mutations: delete a key, retype a scalar (string/int/bool/list/map/null), duplicate or reserved names, unknown/empty type names, out-of-range numbers "
        "(port 70000, bufferSize 0 / 2^40, udpMaxSocket 0, historySize 2^63), missing/empty/garbage certificate and key files, load-balancer member graphs with "
        "self-reference and longer cycles, bad filters and bad hash/log scripts; each configuration is loaded with --test and started normally, then probed once per "
        "listener (and through every load balancer); also JSON rule lists posted to /rules; non-trivial = at least one mutation applied; distinct = configuration hash")
RULE_MORE = 'Later additions: random typed rule-language expressions with rare arity/index/type/syntax faults and deep nesting; inconsistent balancers that no rule of the file leads to, named by a posted list; a log on a full file system; every run (also --test) ends with a seeded runtime shutdown (tasks cancelled in seeded order, blocking pool gone).'
LEVEL_TEXT = ("seeded exploration: the varied dimension is configuration input, what simulation adds is the hermetic environment in which an accepted configuration can really "
              "be started and probed (ports, files, certificates, peers) - the half the suite cannot reach; a run must end in 'started' or 'exited with an error message', "
              "never in a panic, a signal, or a hang (wall-clock watchdog 30 s against millisecond runs, 6 GiB address-space limit)")
LEVEL_NOTE = "the watchdog is the only place real time appears in an oracle; replay is deterministic so it cannot flake; TPROXY listeners are loaded but not started for real traffic"
ASSUMPTIONS = []

RETYPES = [None, True, False, 0, -1, 1, 70000, 2 ** 40, 2 ** 63 - 1, 1.5, "", "x", "0.0.0.0:0", [], ["a"], {}, {"a": 1}, "deny", "1", "yes"]


def base_config(rng, sc):
    lh = sc.add_http_listener("http")
    lt = sc.add_http_listener("https", tls=True, client_policy=rng.choice([None, "optional", "required"]))
    ls = sc.add_socks_listener("socks", auth=rng.choice([None, {"required": True, "users": [{"username": "a", "password": "b"}], "cmd": ["prog", "#USER#", "#PASS#"], "cache": {"timeout": 5}}]),
                               allowUdp=rng.choice([True, False]), enforceUdpClient=rng.choice([True, False]))
    oaddr = "10.9.0.9:%d" % sc.port()
    lr = sc.add_reverse_listener("rev", oaddr)
    lru = sc.add_reverse_listener("revudp", "10.9.0.9:%d" % sc.port(), protocol="udp")
    lq = sc.add_quic_listener("quic")
    if rng.random() < 0.5:
        ltp = sc.add_tproxy_listener("tp")
        sc.cfg["listeners"][-1]["maxUdpSocket"] = rng.choice([1, 128, 128, 65536])
    sc.add_direct("direct", dns={"servers": rng.choice(["system", "1.1.1.1", "8.8.8.8:53,1.1.1.1"]), "family": rng.choice(["V4Only", "V6Only", "V4First", "V6First"])},
                  **({"bind": "10.0.0.1"} if rng.random() < 0.2 else {}))
    h = sc.add_http_connector("uhttp", tls=rng.random() < 0.4)
    s5 = sc.add_socks_connector("usocks", version=rng.choice([4, 5]), auth=rng.choice([None, ("u", "p")]))
    q = sc.add_quic_connector("uquic", inline_udp=rng.choice([True, False]))
    for ci in (h, s5, q):
        ci["server"]["default_ops"] = sc.upstream_handshake(ci) + [op("sleep", ms=50), op("shutdown"), op("recv_eof", timeout_ms=5000, on_fail="continue")]
    sc.cfg["connectors"].append({"name": "lb", "type": "loadbalance", "connectors": ["direct", "uhttp"], "algorithm": rng.choice(["rr", "random", {"hashBy": "request.source.host"}])})
    sc.rule("deny", 'request.target.host == "blocked.sim"')
    sc.rule("lb", 'request.listener == "socks"')
    sc.rule("uquic", 'request.target.port == 4433')
    if rng.random() < 0.5:
        # generated filters: accepted or rejected at load - and when accepted, evaluated for every probe
        for _ in range(rng.randint(1, 3)):
            sc.rule(rng.choice(["direct", "uhttp", "lb", "deny"]), rand_expr(rng, "B"))
    sc.rule("direct")
    # legal boundary values belong to the *valid* configurations: 0 disables a timeout, historySize 0 keeps nothing ...
    sc.cfg["timeouts"] = {"idle": rng.choice([0, 0, 1, 5, 600, 2 ** 32, 2 ** 63 - 1]), "udp": rng.choice([0, 1, 5, 2 ** 63 - 1])}
    sc.cfg["ioParams"] = {"bufferSize": rng.choice([1, 2, 4096, 65536, 1 << 20]), "useSplice": rng.choice([True, False])}
    sc.cfg["metrics"]["historySize"] = rng.choice([0, 1, 100, 2 ** 40])
    sc.cfg["metrics"]["apiPrefix"] = rng.choice(["/api", "/api", "/x/y", "/"])
    sc.cfg["metrics"]["cors"] = rng.choice(["*", "http://ui.sim"])
    if rng.random() < 0.5:
        sc.cfg["accessLog"] = {"path": "/sim/access.log", "format": {"script": "`${request.source} -> ${request.target} via ${request.connector}`"}}
        if rng.random() < 0.5:
            sc.cfg["accessLog"]["format"]["script"] = rand_expr(rng, "S")
    if rng.random() < 0.3:
        for e in sc.cfg["connectors"]:
            if e.get("name") == "lb":
                e["algorithm"] = {"hashBy": rand_expr(rng, rng.choice("SSI"))}
    sc.add_origin(oaddr, default_ops=[op("sleep", ms=20), op("shutdown"), op("recv_eof", timeout_ms=5000, on_fail="continue")], oid="origin")
    return {"http": lh, "https": lt, "socks": ls, "rev": lr, "quic": lq}, oaddr


# ---------------------------------------------------------------------------------------
# random rule-language expressions (filters, load-balancer keys, access-log scripts): mostly well typed, with dynamic
# errors that depend on the request (division by a port difference, non-numeric to_integer, index out of range), and -
# rarely - wrong arity, out-of-range tuple indexes and wrong types. Constants come from the values the probes use, so
# that "x - port" really becomes 0 for some probe.
INTS = [0, 1, -1, 2, 80, 4433, 65535, 9223372036854775807]
STRS = ["", "a", "blocked.sim", "10.9.0.9", "10.0.0.0/8", ".", "sim", "80", "x.y.z"]
FUNCS = {"to_string": 1, "to_integer": 1, "split": 2, "strcat": 1, "cidr_match": 2}


MAX_RANDOM_DEPTH = 7


def nesting_depth(text):
    """deepest nesting of parentheses, brackets and braces in a source text"""
    d = m = 0
    for ch in text:
        if ch in "([{":
            d += 1
            m = max(m, d)
        elif ch in ")]}":
            d = max(0, d - 1)
    return m


def rand_expr(rng, t, d=0, odd=0.04):
    """milu source text of (usually) type t in {'B','I','S','AS','AI'}. The parser's time is exponential in the nesting depth (the
    known deep-nesting finding, exercised on purpose by deep_expr): random expressions stay below the depth where that starts to
    matter (a depth-9 expression with a syntax error inside took 72 s to be rejected), so that what they find is something else"""
    if d == 0:
        for _ in range(20):
            e = _rand_expr(rng, t, 0, odd)
            if nesting_depth(e) <= MAX_RANDOM_DEPTH:
                return e
        return {"B": "true", "I": "1"}.get(t, '"s"')
    return _rand_expr(rng, t, d, odd)


def _rand_expr(rng, t, d=0, odd=0.04):
    E = lambda tt: rand_expr(rng, tt, d + 1, odd)
    if rng.random() < odd:
        k = rng.randrange(5)
        if k == 0:   # wrong arity
            f = rng.choice(list(FUNCS))
            n = rng.choice([0, max(0, FUNCS[f] - 1), FUNCS[f] + 1])
            return "%s(%s)" % (f, ", ".join(E(rng.choice("IS")) for _ in range(n)))
        if k == 1:   # tuple index out of range / negative
            return "(%s, %s).%d" % (E("I"), E("S"), rng.choice([2, 5, 127, 4294967296]))
        if k == 2:   # another type than asked for
            return E(rng.choice([x for x in ("B", "I", "S", "AS") if x != t]))
        if k == 3:   # unknown names
            return rng.choice(["request.nosuch", "nosuch", "request.target.nosuch", "request.source.host.x", "nosuch(1)"])
        return rng.choice(["(", "1 +", "[1, \"a\"]", "if true then 1", "let x = in x", "\"unterminated", "1 2", "`${`"])
    leaf = d >= 4 or rng.random() < 0.3
    if t == "I":
        if leaf:
            return rng.choice([str(rng.choice(INTS)), "request.target.port", "request.source.port"])
        k = rng.randrange(9)
        if k < 3:
            return "(%s %s %s)" % (E("I"), rng.choice(["+", "-", "*", "/", "%", "&", "|", "^", "<<", ">>", ">>>"]), E("I"))
        if k == 3:
            return rng.choice(["-", "~"]) + "(%s)" % E("I")
        if k == 4:
            return "to_integer(%s)" % E("S")
        if k == 5:
            return "(if %s then %s else %s)" % (E("B"), E("I"), E("I"))
        if k == 6:
            return "(%s ? %s : %s)" % (E("B"), E("I"), E("I"))
        if k == 7:
            return "[%s, %s][%s]" % (E("I"), E("I"), E("I"))
        return "(let v%d = %s in (v%d + %s))" % (d, E("I"), d, E("I"))
    if t == "S":
        if leaf:
            return rng.choice(["\"%s\"" % rng.choice(STRS), "request.target.host", "request.source.host", "request.listener", "request.target.type", "request.feature", "request.connector"])
        k = rng.randrange(7)
        if k == 0:
            return "to_string(%s)" % E(rng.choice("ISB"))
        if k == 1:
            return "strcat(%s)" % E("AS")
        if k == 2:
            return "`%s${%s}%s${%s}`" % (rng.choice(["", "x=", "-"]), E(rng.choice("IS")), rng.choice(["", " "]), E("S"))
        if k == 3:
            return "%s[%s]" % (E("AS"), E("I"))
        if k == 4:
            return "(if %s then %s else %s)" % (E("B"), E("S"), E("S"))
        if k == 5:
            return "(%s, %s).%d" % (E("I"), E("S"), 1)
        return "(let s%d = %s in strcat([s%d, %s]))" % (d, E("S"), d, E("S"))
    if t == "AS":
        if leaf or rng.random() < 0.5:
            return "[%s]" % ", ".join(E("S") for _ in range(rng.randint(1, 3)))
        return "split(%s, %s)" % (E("S"), E("S"))
    if t == "AI":
        return "[%s]" % ", ".join(E("I") for _ in range(rng.randint(1, 3)))
    # Boolean
    if leaf:
        return rng.choice(["true", "false", "request.target.port == 80", "request.listener == \"http\"", "request.target.host == \"blocked.sim\""])
    k = rng.randrange(9)
    if k == 0:
        tt = rng.choice("IS")
        return "(%s %s %s)" % (E(tt), rng.choice(["==", "!="]), E(tt))
    if k == 1:
        return "(%s %s %s)" % (E("I"), rng.choice(["<", ">"]), E("I"))
    if k == 2:
        return "(%s %s \"%s\")" % (E("S"), rng.choice(["=~", "!~"]), rng.choice(["^a", "sim$", ".*", "(", "[0-9]+", "\\\\d"]))
    if k == 3:
        return "(%s _: %s)" % (E("S"), E("AS"))
    if k == 4:
        return "!(%s)" % E("B")
    if k == 5:
        return "(%s %s %s)" % (E("B"), rng.choice(["&&", "||", "^^", "and", "or", "xor"]), E("B"))
    if k == 6:
        return "cidr_match(%s, \"%s\")" % (E("S"), rng.choice(["10.0.0.0/8", "0.0.0.0/0", "fd00::/8", "10.9.0.9/32", "garbage", "10.0.0.0/33"]))
    if k == 7:
        return "(%s _: %s)" % (E("I"), E("AI"))
    return "(if %s then %s else %s)" % (E("B"), E("B"), E("B"))



def deep_expr(rng):
    """expressions whose only unusual property is their nesting depth -> (text, class)"""
    # depths around 30 and unbalanced parentheses from depth 8 make the parser run for hours (one watchdog period per run):
    # kept rare so that the quick tier stays quick
    slow = rng.random() < 0.12
    n = 30 if slow else rng.choice([10, 300, 2000, 5000])
    k = rng.choice([0, 1, 2, 4]) if not slow else rng.choice([0, 3])
    if k == 0:
        return "(" * n + "1 == 1" + ")" * n, n
    if k == 1:
        return "!" * n + "true", n
    if k == 2:
        return "[" * n + "1" + "]" * n + " == 1", n
    if k == 3:
        return "(" * 9 + "1", 9          # unbalanced
    return "-" * n + "1 == 1", n


def paths(node, prefix=()):
    out = []
    if isinstance(node, dict):
        for k, v in node.items():
            out.append(prefix + (k,))
            out += paths(v, prefix + (k,))
    elif isinstance(node, list):
        for i, v in enumerate(node):
            out.append(prefix + (i,))
            out += paths(v, prefix + (i,))
    return out


def get(node, path):
    for p in path:
        node = node[p]
    return node


def setp(node, path, val):
    for p in path[:-1]:
        node = node[p]
    node[path[-1]] = val


def delp(node, path):
    for p in path[:-1]:
        node = node[p]
    del node[path[-1]]


def mutate_cfg(rng, cfg):
    desc = []
    for _ in range(rng.choice([0, 1, 1, 1, 2, 3])):
        try:
            mutate_once(rng, cfg, desc)
        except (TypeError, AttributeError, KeyError, IndexError, ValueError):
            # an earlier mutation already destroyed the part this one wanted to touch
            desc.append("skipped")
    return desc


def mutate_once(rng, cfg, desc):
    if True:
        k = rng.randrange(12)
        ps = paths(cfg)
        if k in (0, 1) and ps:
            p = rng.choice(ps)
            try:
                delp(cfg, p)
                desc.append("del %s" % (p,))
            except (KeyError, IndexError):
                pass
        elif k in (2, 3, 4) and ps:
            p = rng.choice(ps)
            v = copy.deepcopy(rng.choice(RETYPES))
            setp(cfg, p, v)
            desc.append("set %s=%r" % (p, v))
        elif k == 5:
            sec = rng.choice(["listeners", "connectors"])
            if cfg.get(sec) and isinstance(cfg[sec], list) and cfg[sec]:
                e = copy.deepcopy(rng.choice(cfg[sec]))
                if isinstance(e, dict):
                    e["name"] = rng.choice([e.get("name"), "deny", "", "http", "direct", 5, None, ["x"]])
                cfg[sec].append(e)
                desc.append("dup %s name=%r" % (sec, e.get("name") if isinstance(e, dict) else e))
        elif k == 6:
            sec = rng.choice(["listeners", "connectors"])
            if isinstance(cfg.get(sec), list) and cfg[sec]:
                e = rng.choice(cfg[sec])
                if isinstance(e, dict):
                    e["type"] = rng.choice(["", "nosuch", "HTTP", None, 7, "tproxy", "loadbalance", "direct", "reverse", "quic", ["http"]])
                    desc.append("type %s=%r" % (e.get("name"), e["type"]))
        elif k == 7:
            # certificate / key files
            for e in (cfg.get("listeners") or []) + (cfg.get("connectors") or []):
                if isinstance(e, dict) and isinstance(e.get("tls"), dict) and rng.random() < 0.6:
                    t = e["tls"]
                    f = rng.choice([pki("empty.pem"), pki("garbage.pem"), pki("nosuchfile.pem"), pki("ca1.crt"), pki("server-good.key"), "", "/", None])
                    fld = rng.choice(["cert", "key", "ca"]) if rng.random() < 0.7 else None
                    if fld:
                        t[fld] = f
                    elif isinstance(t.get("client"), dict):
                        t["client"]["ca"] = f
                    elif isinstance(t.get("auth"), dict):
                        t["auth"][rng.choice(["cert", "key"])] = f
                    desc.append("tls file %s.%s=%r" % (e.get("name"), fld, f))
        elif k == 8:
            # load balancer graphs
            conns = cfg.get("connectors")
            if isinstance(conns, list):
                g = rng.choice(["self", "pair", "long", "empty", "unknown", "lb-of-lb"])
                if g == "self":
                    conns.append({"name": "lbself", "type": "loadbalance", "connectors": ["lbself"]})
                    tgt = "lbself"
                elif g == "pair":
                    conns += [{"name": "lba", "type": "loadbalance", "connectors": ["lbb"]}, {"name": "lbb", "type": "loadbalance", "connectors": ["lba", "direct"]}]
                    tgt = "lba"
                elif g == "long":
                    conns += [{"name": "c1", "type": "loadbalance", "connectors": ["c2"]}, {"name": "c2", "type": "loadbalance", "connectors": ["c3"]}, {"name": "c3", "type": "loadbalance", "connectors": ["c1"]}]
                    tgt = "c1"
                elif g == "empty":
                    conns.append({"name": "lbe", "type": "loadbalance", "connectors": []})
                    tgt = "lbe"
                elif g == "unknown":
                    conns.append({"name": "lbu", "type": "loadbalance", "connectors": ["nosuch"]})
                    tgt = "lbu"
                else:
                    conns += [{"name": "lbo", "type": "loadbalance", "connectors": ["lb", "direct"], "algo": "random"}]
                    tgt = "lbo"
                # with or without a rule that leads to it: a connector no rule of the file names can still be named by a list posted later
                spare = rng.random() < 0.4
                if isinstance(cfg.get("rules"), list) and not spare:
                    cfg["rules"].insert(0, {"target": tgt, "filter": 'request.listener == "http"'})
                desc.append("lb graph %s%s" % (g, " (no rule leads to it)" if spare else ""))
        elif k == 9:
            if isinstance(cfg.get("rules"), list):
                bad = rng.choice([{"target": "direct", "filter": "request.target.host =="}, {"target": "nosuch"}, {"filter": "true"}, {"target": "direct", "filter": "1 + 1"},
                                  {"target": "direct", "filter": 5}, {"target": 5}, "direct", {"target": "direct", "filter": 'request.target.port == "80"'},
                                  {"target": "direct", "filter": "to_integer(request.target.host) > 0"}, {"target": "direct", "filter": "request.target.host =~ \"(\""},
                                  {"target": "direct", "filter": "1 / (request.target.port - request.target.port) == 1"}, {"target": "direct", "filter": "request.nosuch == 1"}])
                if rng.random() < 0.5:
                    bad = {"target": "direct", "filter": rand_expr(rng, "B", odd=0.15)}
                if rng.random() < 0.04:
                    text, depth = deep_expr(rng)
                    bad = {"target": "direct", "filter": text}
                    desc.append("deep-nesting %d" % depth)
                cfg["rules"].insert(rng.randint(0, len(cfg["rules"])), bad)
                desc.append("rule %r" % (bad,))
        elif k == 10:
            v = rng.choice(["request.source", "1", "`${1/0}`", "request.nosuch", "", "(", "to_integer(request.source.host)"])
            if rng.random() < 0.6:
                v = rand_expr(rng, rng.choice("SSIB"), odd=0.15)
            for e in cfg.get("connectors") or []:
                if isinstance(e, dict) and e.get("type") == "loadbalance" and e.get("name") == "lb":
                    e["algorithm"] = {"hashBy": v}
            if rng.random() < 0.5 and isinstance(cfg.get("accessLog"), dict):
                cfg["accessLog"]["format"] = {"script": v}
            desc.append("script %r" % v)
        elif k == 11 and rng.random() < 0.5:
            which = rng.randrange(4)
            if which == 3 and isinstance(cfg.get("accessLog"), dict):
                cfg["accessLog"]["path"] = rng.choice(["/dev/full", "/sim/full/access.log"])     # a log that cannot be written (no space left)
                desc.append("accessLog.path on a full file system")
            elif which == 0 and isinstance(cfg.get("metrics"), dict) and isinstance(cfg.get("listeners"), list) and cfg["listeners"]:
                e = rng.choice(cfg["listeners"])
                if isinstance(e, dict) and isinstance(e.get("bind"), str):
                    cfg["metrics"]["bind"] = e["bind"]
                    desc.append("metrics.bind = bind of listener %s" % e.get("name"))
            elif which == 1 and isinstance(cfg.get("metrics"), dict):
                v = rng.choice(["/:", "/*", "/a/:b", "/a/*b", "/{x}", "//", "/a b", "/%zz", "/\u00e9", "/api/", "/a:b", "/:/x"])
                cfg["metrics"]["apiPrefix"] = v
                desc.append("apiPrefix %r" % v)
            else:
                for e in cfg.get("listeners") or []:
                    if isinstance(e, dict) and e.get("type") == "tproxy":
                        e["maxUdpSocket"] = rng.choice([0, 2 ** 64 - 1, 2 ** 40, 2 ** 32, -1])
                        desc.append("maxUdpSocket %r" % e["maxUdpSocket"])
        else:
            sec = rng.choice(["timeouts", "ioParams", "metrics", "accessLog", "apiVersion", "kind", "listeners", "connectors", "rules"])
            v = copy.deepcopy(rng.choice(RETYPES))
            cfg[sec] = v
            desc.append("section %s=%r" % (sec, v))
    return desc


def gen(rng, tier, i):
    sc = Scenario(rng)
    lis, oaddr = base_config(rng, sc)
    cfg = sc.cfg
    desc = mutate_cfg(rng, cfg)
    io = cfg.get("ioParams") if isinstance(cfg, dict) else None
    splice_possible = not (isinstance(io, dict) and io.get("useSplice") is False)
    if splice_possible:
        sc.net["backend"] = "kernel"
    # probes: one per well-formed listener entry of a kind we can speak
    probes = []
    for e in (cfg.get("listeners") if isinstance(cfg.get("listeners"), list) else []):
        if not isinstance(e, dict) or not isinstance(e.get("name"), str) or not isinstance(e.get("bind"), str):
            continue
        kind = e.get("type", e.get("name"))
        try:
            port = int(e["bind"].rsplit(":", 1)[1])
        except (ValueError, IndexError):
            continue
        if not (0 < port < 65536) or kind not in ("http", "socks", "reverse", "quic"):
            continue
        if kind == "reverse" and e.get("protocol") == "udp":
            continue
        li = {"kind": kind, "name": e["name"], "addr": "%s:%d" % (G.PROXY4, port), "port": port, "tls": isinstance(e.get("tls"), dict)}
        for tgt in (oaddr, "blocked.sim:80", "10.9.0.9:4433"):
            host, p = tgt.rsplit(":", 1)
            try:
                hs, proto = sc.client_handshake(li, host, int(p), variant="5p" if kind == "socks" else None)
            except Exception:
                continue
            cid = "probe-%s-%d" % (e["name"], len(probes))
            try:
                sc.add_client(cid, li, [dict(o, on_fail="continue", timeout_ms=8000) for o in hs] + [op("shutdown", on_fail="continue"), op("recv_eof", timeout_ms=8000, on_fail="continue")], start_ms=50 + 20 * len(probes))
            except Exception:
                continue
            probes.append(cid)
            if len(probes) > 10:
                break
    post_bodies = []
    deep_posts = []
    for k in range(rng.choice([0, 0, 1, 2])):
        body = copy.deepcopy(rng.choice([[{"target": "direct"}], [{"target": "nosuch"}], [{"target": "direct", "filter": 'request.target.port == "1"'}], [], "x", {"a": 1}, [5], [{"filter": "true"}],
                                         [{"target": "direct", "filter": "request.target.host =~ \"(\""}], [{"target": "deny", "filter": "1 / 0 == 1"}], None, [{"target": "lb", "filter": "`a` == \"a\""}]]))
        names = [e["name"] for e in (cfg.get("connectors") if isinstance(cfg.get("connectors"), list) else []) if isinstance(e, dict) and isinstance(e.get("name"), str)]
        if names and rng.random() < 0.4:
            # a list that names any connector of the file, used by its rules or not
            body = [{"target": rng.choice(names[-3:] if rng.random() < 0.6 else names)}]
        if rng.random() < 0.03:
            text, depth = deep_expr(rng)
            body = [{"target": "direct", "filter": text}]
            deep_posts.append("deep-nesting %d (posted)" % depth)
        sc.api_call("post%d" % k, "POST", "/api/rules", body=json.dumps(body), start_ms=300 + 100 * k, timeout_ms=8000, background=True)
        post_bodies.append(body)
        hs, proto = sc.client_handshake(lis["http"], "10.9.0.9", int(oaddr.rsplit(":", 1)[1]))
        sc.add_client("after-post%d" % k, lis["http"], [dict(o, on_fail="continue", timeout_ms=8000) for o in hs] + [op("recv_eof", timeout_ms=8000, on_fail="continue")], start_ms=350 + 100 * k)
    def strings(node):
        if isinstance(node, str):
            yield node
        elif isinstance(node, dict):
            for x in node.values():
                yield from strings(x)
        elif isinstance(node, list):
            for x in node:
                yield from strings(x)
    # (the input class of the known deep-nesting finding is measured, whichever generator produced the text)
    expr_depth = max([nesting_depth(x) for x in strings(cfg)] + [nesting_depth(x) for b in post_bodies for x in strings(b)] + [0])
    sc.meta = {"cls": "m%d" % len(desc), "cfgkey": str(hash(json.dumps(cfg, sort_keys=True, default=str)) % 10 ** 9), "mutations": desc + deep_posts, "probes": probes, "posts": len(post_bodies), "keep_ops": True,
               "expr_depth": expr_depth}
    # the access log is flushed when it is rotated: ask for it once the probes are through (API prefix /api or whatever survived)
    sc.api_call("rotate", "POST", "/api/logrotate", start_ms=1500, timeout_ms=8000)
    sc.actors[-1]["ops"] = [dict(o, on_fail="continue") for o in sc.actors[-1]["ops"]] + [op("sleep", ms=1500)]
    sc.max_ms = 40000
    # (plans with a deeply nested expression either finish at once or run for hours: a shorter watchdog keeps the tier quick)
    plan = sc.plan(want_events=False, watchdog_s=10 if any(m.startswith("deep-nesting") for m in desc + deep_posts) else 30)
    return plan


def classify(out):
    """-> ('started' | 'error-exit' | 'panic' | 'signal' | 'hang', detail)"""
    if out["hung"]:
        return "hang", "no exit and no result within the watchdog"
    if out.get("panic_lines"):
        line = out["panic_lines"][0]
        return "panic", line[:300]
    if out["result"] is not None:
        return "started", ""
    rc_ = out["exit"]
    if rc_ is not None and rc_ < 0:
        err = out["stderr"] or ""
        why = "stack-overflow" if "stack overflow" in err else ("alloc" if "memory allocation" in err else "sig%d" % -rc_)
        return "signal-" + why, "killed by signal %d: %s" % (-rc_, err[-200:])
    if rc_ == 0 and "is ok" in (out["stdout"] or ""):
        return "test-ok", ""
    if rc_ not in (0, None) and ("Error" in (out["stderr"] or "") or "error" in (out["stderr"] or "")):
        return "error-exit", (out["stderr"] or "").strip().splitlines()[0][:200] if (out["stderr"] or "").strip() else ""
    if rc_ == 2 and "error:" in (out["stderr"] or ""):
        return "error-exit", "usage"
    return "odd-exit", "exit=%s stderr=%s" % (rc_, (out["stderr"] or "")[-200:])


def panic_where(detail):
    loc = detail.split(" at ", 1)[1].split(" : ")[0] if " at " in detail else "?"
    return loc.replace(core.REPO + "/", "").replace("/repo/", "").rsplit(":", 1)[0]


def oracle(plan, out):
    meta = plan["meta"]
    V = []
    muts = "; ".join(meta["mutations"])[:300]

    deep = any(m.startswith("deep-nesting") for m in meta["mutations"]) or meta.get("expr_depth", 0) > MAX_RANDOM_DEPTH

    def v(clause, sig, text):
        if deep and (sig in ("hang",) or sig.startswith("signal-stack-overflow") or sig.startswith("signal-sig")):
            sig += "/deep-nesting"      # identified by the input class: depth of the expression, nothing else unusual
        V.append(Violation(ID, clause, "C18/%s/%s" % (clause, sig), text + " [mutations: %s]" % muts))

    # 1. --test
    tplan = dict(plan)
    tplan["argv"] = ["-c", "/sim/config.yaml", "-l", "warn", "-t", "x"]
    tplan["actors"] = []
    tout = core.run_plan(tplan, tag="c18t-%d" % __import__("os").getpid())
    tk, td = classify(tout)
    if tk == "panic":
        v("panic-on-load", panic_where(td), "--test: %s" % td)
    elif tk.startswith("signal") or tk in ("hang", "odd-exit", "started"):
        v("bad-load-outcome", tk, "--test ended as %s: %s" % (tk, td))
    # 2. normal run
    k, d = classify(out)
    if k == "panic":
        phase = "load" if out["result"] is None else "traffic"
        v("panic-on-" + phase, panic_where(d), "normal run: %s" % d)
    elif k.startswith("signal") or k in ("hang", "odd-exit"):
        v("bad-run-outcome", k, "normal run ended as %s: %s" % (k, d))
    # (a file accepted by --test whose normal start then exits with an error message - e.g. two listeners on one
    #  address - is an error exit, not a crash: the property does not demand that it starts)
    return V


def probes(plan, out):
    meta = plan["meta"]
    k, d = classify(out)
    return {"nontrivial": len(meta["mutations"]) > 0, "started": k == "started", "rejected": k == "error-exit", "probes": len(meta["probes"]), "posts": meta["posts"],
            "lb_graph": any(m.startswith("lb graph") for m in meta["mutations"])}


def shape_key(plan, out):
    """distinctness for this property = distinct configuration documents x outcome"""
    return "%s/%s" % (plan["meta"]["cfgkey"], classify(out)[0])
