"""C17 — load-balancer selection laws."""
import json

from .. import gen as G, refcodec as rc
from ..core import Violation
from ..gen import Scenario, op, send
from .c01 import reply_ok

ID = "C17"
BUDGET = {"quick": 40, "thorough": 600}
MAX_RUNS = {"quick": 4000, "thorough": 200000}
TECHNIQUE = "deterministic simulation: sequential and concurrent request streams against a load-balancing upstream whose members are separately observable; selection laws checked over the recorded upstream contacts"
RULE = ("plans: loadbalance over 1-5 members (each its own observable fake upstream) x algorithm (rr, random, hashBy over request.source.host / request.target.host / "
        "request.listener / template concatenations) x request stream (sequential; concurrent bursts of k*n requests; 400 requests for random) x chaos and task-order "
        "perturbation; non-trivial = n >= 2 members and >= 2n requests; distinct = event-order hash")
RULE_MORE = 'Later additions: nested balancers; the whole target as hash key in four spellings; one member whose upstream refuses every request (still selected in its turn, recorded, no other member involved).'
LEVEL_TEXT = ("seeded exploration of the real loadbalance connector under task-level interleavings: only members are contacted, round-robin is balanced in every window and "
              "in concurrent bursts, equal hash keys map to one member, random reaches every member, and the connector recorded for the connection is the member used")
LEVEL_NOTE = "single-threaded runtime: a non-atomic read-modify-write without an await point in between cannot be exposed (stated limit, DESIGN.md C17)"
ASSUMPTIONS = ["random: N=400 requests, miss probability < 1e-38 for n<=5; the entropy source is seeded so the outcome is repeatable"]

KEYS = [("request.source.host", "src"), ("request.target.host", "host"), ("request.listener", "listener"),
        ("`${request.source.host}|${request.target.host}`", "src+host"), ("`k-${request.listener}`", "listener"),
        # the whole target as the key: the same destination must select the same member however the client spelled it
        # (an address in a CONNECT line or a SOCKS5 address field, or the same characters sent as a name)
        ("request.target", "target"), ("request.target", "target")]


def gen(rng, tier, i):
    sc = Scenario(rng)
    cname, chaos = G.pick_chaos(rng, weights=(("none", 2), ("mild", 3), ("heavy", 1)))
    if chaos:
        chaos["capacity"] = 1 << 20
    sc.net["chaos"] = chaos
    sc.net["spawn_yield"] = rng.choice([0, 300, 700])
    sc.net["lock_yield"] = rng.choice([0, 100, 500])   # seeded scheduling points at the asynchronous locks
    sc.cfg["metrics"]["historySize"] = 2000
    n = rng.randint(1, 5)
    algo = rng.choice(["rr", "rr", "random", "hash", "hash", "default"])
    members = []
    for k in range(n):
        ci = sc.add_http_connector("m%d" % k)
        ci["server"]["default_ops"] = [op("recv_http_head", label="upreq"), send(b"HTTP/1.1 200 OK\r\n\r\n"), op("shutdown"), op("recv_eof", timeout_ms=30000)]
        members.append(ci)
    refusing = None
    if n >= 2 and rng.random() < 0.25:
        # one member whose upstream refuses every request: it is still selected in its turn, the request fails, and the
        # record names it - no other member is involved
        refusing = rng.choice(members)
        refusing["server"]["default_ops"] = [op("recv_http_head", label="upreq"), send(b"HTTP/1.1 %s\r\nContent-Length: 0\r\n\r\n" % rng.choice([b"403 Forbidden", b"502 Bad Gateway"])), op("shutdown"), op("recv_eof", timeout_ms=30000)]
    decoy = sc.add_http_connector("decoy")
    decoy["server"]["default_ops"] = [op("recv_http_head", label="upreq"), send(b"HTTP/1.1 200 OK\r\n\r\n"), op("shutdown"), op("recv_eof", timeout_ms=30000)]
    key = None
    if algo == "rr":
        a = rng.choice(["rr", "roundRobin"])
    elif algo == "random":
        a = "random"
    elif algo == "hash":
        key = rng.choice(KEYS)
        a = {rng.choice(["hashBy", "hash"]): key[0]}
    else:
        a = None
    inner_names = []
    if rng.random() < 0.3:
        # a load balancer among the members of the load balancer: the laws hold at each level, and the record names the
        # connector that finally carried the connection
        inner_members = []
        for k in range(rng.randint(1, 3)):
            ci = sc.add_http_connector("i%d" % k)
            ci["server"]["default_ops"] = [op("recv_http_head", label="upreq"), send(b"HTTP/1.1 200 OK\r\n\r\n"), op("shutdown"), op("recv_eof", timeout_ms=30000)]
            inner_members.append(ci)
            inner_names.append("i%d" % k)
        inner = sc.add_loadbalance("inner", inner_members, a)
        members.insert(rng.randint(0, len(members)), inner)
        n += 1
    sc.add_loadbalance("lb", members, a)
    l1 = sc.add_http_listener("l-one")
    by_target = key is not None and key[1] == "target"
    l2 = sc.add_socks_listener("l-two") if by_target else sc.add_http_listener("l-two")
    sc.rule("lb")
    mode = rng.choice(["seq", "burst", "mixed"])
    if by_target:
        mode = "seq"    # requests are attributed to upstream connections by time: one at a time
    if algo == "random":
        total = 400 if n > 1 else 20
        mode = "burst"
    else:
        k = rng.randint(1, 4)
        total = k * n * rng.choice([1, 2, 3]) if algo in ("rr", "default") else rng.randint(2, 30)
    reqs = []
    srcs = [sc.client_ip() for _ in range(rng.randint(1, 4))]
    hosts = ["h%d.example.sim" % j for j in range(rng.randint(1, 4))]
    t = 10
    burst_sizes = []
    left = total
    while left > 0:
        if mode == "seq":
            b = 1
        elif mode == "burst":
            b = left if algo == "random" else min(left, n * rng.randint(1, 4))
        else:
            b = 1 if rng.random() < 0.5 else min(left, n * rng.randint(1, 2))
        burst_sizes.append(b)
        left -= b
    idx = 0
    for b in burst_sizes:
        for _ in range(b):
            li = rng.choice([l1, l2])
            src = rng.choice(srcs)
            host = rng.choice(hosts)
            port = 2000 + idx
            if by_target:
                host = rng.choice(["10.9.7.1", "10.9.7.2", "h0.example.sim"])
                port = rng.choice([80, 443])
                if li is l2:
                    form = rng.choice(["5", "5name", "4a"])
                    if form == "5":
                        hs, proto = sc.client_handshake(li, host, port, variant="5")
                    elif form == "5name":
                        hs = [send(rc.socks5_greeting([0])), op("recv_n", n=2, label="method"), send(rc.socks5_request(1, host, port, force_domain=True)), op("recv_socks5_reply", label="reply")]
                    else:
                        hs = [send(bytes([4, 1]) + port.to_bytes(2, "big") + bytes([0, 0, 0, 1]) + b"u\0" + host.encode() + b"\0"), op("recv_n", n=8, label="reply")]
                else:
                    hs, proto = sc.client_handshake(li, host, port)
            else:
                hs, proto = sc.client_handshake(li, host, port)
            sc.add_client("q%d" % idx, li, hs + [op("recv_eof", timeout_ms=30000, label="eof")], start_ms=t + (rng.choice([0, 0, 1]) if b > 1 else 0), src=src)
            reqs.append({"k": idx, "listener": li["name"], "src": src, "host": host, "port": port, "burst": len(burst_sizes) and burst_sizes.index(b) if False else None, "t": t, "bsize": b})
            idx += 1
        t += 400  # the next burst starts only after this one is long finished
    sc.api_call("hist", "GET", "/api/history", start_ms=t + 3000)
    sc.meta = {"cls": "%s/n%d/%s" % (algo, n, mode), "cfgkey": "%s/n%d/%s/%s/%d" % (algo, n, mode, key and key[1], total), "algo": algo, "n": n, "reqs": reqs,
               "key": key and key[1], "bursts": burst_sizes, "keep_ops": True, "inner": inner_names, "refusing": refusing and refusing["name"]}
    sc.max_ms = t + 60000
    return sc.plan(want_events=False)


def oracle(plan, out):
    R = G.Result(out)
    meta = plan["meta"]
    V = []
    algo = meta["algo"] if meta["algo"] != "default" else "rr"

    def v(clause, text):
        V.append(Violation(ID, clause, "C17/%s/%s" % (clause, algo), text))

    if out["hung"] or not R.ok:
        if out["exit"] not in (0, None):
            v("config-rejected", "the proxy refused a valid load-balancer configuration: %s" % (out["stderr"] or "")[-300:])
            return V
        v("crash", "process hung")
        return V
    for p in R.panics():
        v("panic", "panic at %s: %s" % (p.get("loc"), p.get("msg", "")))
    n = meta["n"]
    # who served which request (by unique target port)
    served = {}
    for r in R.records:
        if r.get("label") == "upreq" and r.get("res") == "ok":
            try:
                m, target, ver, hdrs, rest = rc.parse_http_request(bytes.fromhex(r["hex"]))
                port = int(target.rsplit(b":", 1)[1])
            except (rc.ParseError, ValueError, IndexError):
                continue
            served.setdefault(port, []).append(r["actor"])
    present = set(a["id"] for a in plan["actors"])
    seq = []
    ups = sorted([(r["t1"], r["actor"]) for r in R.records if r.get("label") == "upreq" and r.get("res") == "ok"])
    for q in meta["reqs"]:
        if "q%d" % q["k"] not in present:
            continue
        if meta.get("key") == "target":
            # one request at a time, 400 ms apart: the upstream connection that arrived in this request's slot
            who = [a for (t1, a) in ups if q["t"] * 1000 <= t1 < (q["t"] + 400) * 1000]
        else:
            who = served.get(q["port"], [])
        if len(who) != 1:
            v("not-exactly-one-member", "request q%d -> %s:%d was served by %s" % (q["k"], q["host"], q["port"], who))
            continue
        if who[0] == "up-decoy" or not (who[0].startswith("up-m") or who[0][3:] in meta.get("inner", [])):
            v("non-member-selected", "request q%d was sent to %s which is not a member of the load balancer" % (q["k"], who[0]))
            continue
        q["leaf"] = who[0][3:]
        q["member"] = "inner" if q["leaf"] in meta.get("inner", []) else q["leaf"]
        seq.append(q)
    # recorded connector = member used
    hist = R.history("hist")
    if hist and hist[0] == 200:
        try:
            for h in json.loads(hist[2]):
                try:
                    port = int(h.get("target", "").rsplit(":", 1)[1])
                except (ValueError, IndexError):
                    continue
                q = [x for x in seq if x["port"] == port] if meta.get("key") != "target" else []   # (ports repeat in by-target plans)
                if q and h.get("connector") != q[0]["leaf"]:
                    v("recorded-member-differs", "request to port %d used member %s but the record says connector=%s" % (port, q[0]["leaf"], h.get("connector")))
        except ValueError:
            pass
    if algo == "rr" and n >= 1:
        # walk the bursts: inside one burst only counts are defined; across bursts the rotation continues
        pos = 0
        counts_total = {}
        for b in meta["bursts"]:
            chunk = [q for q in seq if pos <= q["k"] < pos + b]
            pos += b
            if len(chunk) != b:
                continue
            if b % n == 0:
                cnt = {}
                for q in chunk:
                    cnt[q["member"]] = cnt.get(q["member"], 0) + 1
                if sorted(cnt.values()) != [b // n] * n:
                    v("rr-unbalanced-burst", "%d concurrent requests over %d members were distributed %s" % (b, n, cnt))
        # purely sequential streams: every window of n consecutive selections holds each member once
        if all(b == 1 for b in meta["bursts"]) and len(seq) == len(meta["reqs"]):
            ms = [q["member"] for q in sorted(seq, key=lambda q: q["k"])]
            for s in range(0, len(ms) - n + 1):
                if len(set(ms[s:s + n])) != n:
                    v("rr-window", "sequential selections %s: the window at %d does not contain every member once" % (ms, s))
                    break
        total = len(seq)
        if total % n == 0 and total == len(meta["reqs"]):
            cnt = {}
            for q in seq:
                cnt[q["member"]] = cnt.get(q["member"], 0) + 1
            if sorted(cnt.values()) != [total // n] * n:
                v("rr-unbalanced-total", "%d requests over %d members were distributed %s" % (total, n, cnt))
        inner = meta.get("inner", [])
        if inner and len(seq) == len(meta["reqs"]):
            sub = [q["leaf"] for q in seq if q["member"] == "inner"]
            if sub and len(sub) % len(inner) == 0:
                cnt = {}
                for x in sub:
                    cnt[x] = cnt.get(x, 0) + 1
                if sorted(cnt.values()) != [len(sub) // len(inner)] * len(inner):
                    v("rr-unbalanced-total", "%d selections of the nested balancer over its %d members were distributed %s" % (len(sub), len(inner), cnt))
    elif algo == "hash":
        keyf = {"src": lambda q: q["src"], "host": lambda q: q["host"], "listener": lambda q: q["listener"], "src+host": lambda q: (q["src"], q["host"]),
                "target": lambda q: (q["host"], q["port"])}[meta["key"]]
        m = {}
        for q in seq:
            k = keyf(q)
            if k in m and m[k] != q["leaf"]:
                v("hash-unstable", "key %s was sent to %s and to %s" % (k, m[k], q["leaf"]))
                break
            m[k] = q["leaf"]
    elif algo == "random":
        hit = set(q["member"] for q in seq)
        if len(seq) >= 400 and len(hit) != n:
            v("random-starves-member", "400 random selections over %d members only ever chose %s" % (n, sorted(hit)))
    return V


def probes(plan, out):
    meta = plan["meta"]
    return {"nontrivial": meta["n"] >= 2 and len(meta["reqs"]) >= 2 * meta["n"], "concurrent_burst": any(b > 1 for b in meta["bursts"]), "hash": meta["algo"] == "hash", "random": meta["algo"] == "random", "nested": bool(meta.get("inner")), "refusing_member": bool(meta.get("refusing"))}
