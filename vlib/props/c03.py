"""C03 — destination integrity through every protocol re-encoding."""
import ipaddress
import json

from .. import gen as G, refcodec as rc
from ..core import Violation
from ..gen import Scenario, op, send
from .c01 import reply_ok

ID = "C03"
BUDGET = {"quick": 40, "thorough": 600}
MAX_RUNS = {"quick": 10000, "thorough": 400000}
TECHNIQUE = "deterministic simulation: hostile destination strings pushed through every (inbound codec, outbound codec) pair of the real listeners/connectors with short writes on the upstream hop; independent reference parsers on the next hop"
RULE = ("plans: inbound codec (HTTP CONNECT line, SOCKS4a, SOCKS5 domain/IPv4/IPv6, SOCKS5-UDP header, RPFM header) x outbound codec (HTTP CONNECT+Host, SOCKS4/4a, SOCKS5, "
        "direct via the DNS seam, RPFM, SOCKS5-UDP) x host from a hostile pool (length 0,1,3,4,253-256,300,70000; space, CR, LF, NUL, ':', '@', brackets, non-UTF-8; "
        "all-digit names; every address family) x port (0,1,65535,random) x short writes; non-trivial = the host is not a plain short ASCII name; distinct = (pair, host class)")
RULE_MORE = "Later additions: the next hop's reference parser of a CONNECT authority is the strict RFC 3986 one (brackets only around IPv6 literals, no gen-delims in a name); names with URI delimiters, with a colon followed by digits, bracketed literals in SOCKS name fields; special IPv4/IPv6 literals; disagreeing Host headers."
LEVEL_TEXT = ("seeded exploration through two real hops: what the next hop's strict reference parser extracts must be exactly the destination the client asked for, with no "
              "additional lines, headers or fields - or the request must be refused; truncation, re-splitting at NUL, lossy recoding, CRLF injection and length-byte "
              "overflow all show up as a differing destination with both byte strings in the report")
LEVEL_NOTE = "input-dominated; simulation contributes the two-party composition and the short-write dimension on the upstream hop; trusts the reference parsers"
ASSUMPTIONS = ["IP literals and the same address in another textual form are the same destination"]

INBOUND = [("http", 4), ("socks4a", 2), ("socks5", 4), ("socks5udp", 2), ("httpudp", 2)]
OUTBOUND = [("http", 4), ("socks5", 4), ("socks4", 3), ("direct", 2)]


def wchoice(rng, items):
    return rng.choice([n for n, w in items for _ in range(w)])


def hostile_host(rng):
    """-> (bytes, class)"""
    k = rng.randrange(25)
    if k in (22, 23, 24):
        # valid UTF-8 whose byte length and character count fall on different sides of the 255 limits
        ch = rng.choice(["\u00e9", "\u4e2d", "\U0001f600"])
        n = rng.choice([64, 86, 100, 127, 128, 129, 200, 255])
        pre = rng.choice(["", "a", "internal.corp09", "x." * 20])
        return (pre + ch * n + rng.choice(["", ".sim"])).encode("utf-8"), "multibyte"
    if k == 0:
        return b"", "empty"
    if k == 1:
        return b"a", "len1"
    if k == 2:
        return b"abc", "len3"
    if k == 3:
        return b"a.bc", "len4"
    if k in (4, 5):
        n = rng.choice([253, 254, 255, 256, 257, 300])
        return (b"a" * 60 + b".") * 8 + b"x" * 0 if False else bytes((97 + (i % 26)) if (i % 50) != 49 else 46 for i in range(n)), "len%d" % n
    if k == 6:
        return bytes((97 + (i % 26)) for i in range(rng.choice([1000, 70000]))), "huge"
    if k == 7:
        return b"evil.sim\r\nX-Injected: yes", "crlf"
    if k == 8:
        return b"evil.sim\nHost: other.sim", "lf"
    if k == 9:
        return b"good.sim\x00evil.sim", "nul"
    if k == 10:
        return b"has space.sim", "space"
    if k == 11:
        # (with digits behind the colon the text reads as host:port to whoever splits it in another place)
        return rng.choice([b"a:b.sim", b"h7.example.sim:8080", b"10.9.1.1:81", b"h7.example.sim:81:82", b":80", b"h7.example.sim:"]), "colon"
    if k == 12:
        return rng.choice([b"user@host.sim", b"good.sim@evil.sim", b"a/b.sim", b"evil.sim#good.sim", b"x?y.sim"]), "at"
    if k == 13:
        return rng.choice([b"[host.sim]", b"[::1]", b"[fd09::5]", b"[host.sim", b"host].sim"]), "brackets"
    if k == 14:
        return b"caf\xe9.sim", "latin1"
    if k == 15:
        return b"\xff\xfe\xfd.sim", "nonutf8"
    if k == 16:
        return rng.choice([b"1234", b"1.2.3", b"010.1.1.1", b"65535", b"0"]), "digits"
    if k == 17:
        return b"\xe2\x98\x83.sim", "utf8"
    if k == 18:
        return b"tab\there.sim", "tab"
    if k == 19:
        return b"trailing.sim.", "dot"
    return ("h%d.example.sim" % rng.randint(0, 99)).encode(), "plain"


def gen(rng, tier, i):
    sc = Scenario(rng)
    inb = wchoice(rng, INBOUND)
    outb = wchoice(rng, OUTBOUND)
    udp = inb in ("socks5udp", "httpudp")
    if udp and outb in ("socks4", "direct"):
        outb = rng.choice(["http", "socks5"])
    sc.net["chaos"] = dict(G.CHAOS_LEVELS[rng.choice(["none", "mild", "heavy"])])
    if sc.net["chaos"]:
        sc.net["chaos"]["capacity"] = 1 << 20
    sc.net["spawn_yield"] = rng.choice([0, 300])
    sc.net["lock_yield"] = rng.choice([0, 0, 300])   # seeded scheduling points at the asynchronous locks
    sc.cfg["timeouts"] = {"idle": 5, "udp": 5}
    # destination
    kind = rng.choice(["domain", "domain", "domain", "ipv4", "ipv6"])
    port = rng.choice([0, 1, 80, 443, 65535, rng.randint(2, 65534)])
    if kind == "domain":
        host, hclass = hostile_host(rng)
        if inb.startswith("http") and host in (b"[::1]", b"[fd09::5]"):
            host = b"[host.sim]"     # in a CONNECT line these ARE the IPv6 literals, not names
    elif kind == "ipv4":
        host, hclass = ("10.9.%d.%d" % (rng.randint(0, 255), rng.randint(1, 254))).encode(), "ipv4"
        if outb != "direct" and rng.random() < 0.3:
            # IPv4 addresses next to the SOCKS4a marker range 0.0.0.x (x != 0), and other special ones
            host, hclass = rng.choice([b"0.0.0.0", b"0.0.1.0", b"0.1.0.0", b"1.0.0.0", b"255.255.255.255", b"127.0.0.1", b"0.0.1.1", b"0.0.0.5", b"0.0.0.255", b"0.0.0.1"]), "ipv4-special"
    else:
        host, hclass = ("fd09::%x" % rng.randint(1, 65535)).encode(), "ipv6"
        if outb != "direct" and rng.random() < 0.4:
            # IPv6 addresses with an IPv4 look-alike inside (v4-compatible ::/96, loopback, unspecified, v4-mapped, NAT64),
            # link-local and multicast: none of them is an IPv4 destination
            host, hclass = rng.choice([b"::1", b"::", b"::102:304", b"::a09:707", b"::ffff:10.9.7.7", b"64:ff9b::a09:707", b"fe80::1", b"ff02::1", b"::ffff:0:1"]), "ipv6-special"
    while inb == "socks4a" and kind == "domain" and b"\x00" in host:
        host, hclass = hostile_host(rng)
    if inb == "socks4a" and kind == "ipv4" and host.startswith(b"0.0.0.") and host != b"0.0.0.0":
        host = b"0.0.1.5"   # 0.0.0.x (x != 0) is the SOCKS4a marker: a SOCKS4 client cannot ask for such an address at all
    if inb == "socks4a" and kind == "ipv6":
        kind, host, hclass = "ipv4", b"10.9.7.7", "ipv4"
    # listener
    if inb in ("http", "httpudp"):
        li = sc.add_http_listener("l")
    else:
        li = sc.add_socks_listener("l")
    # connector + fake upstream
    if outb == "http":
        ci = sc.add_http_connector("u")
        if udp:
            ci["server"]["default_ops"] = [op("recv_http_head", label="upreq"), send(b"HTTP/1.1 200 OK\r\nSession-Id: 5\r\n\r\n"), op("recv_rpfm", timeout_ms=4000, label="upframe", keep=70000, on_fail="continue"),
                                           op("recv_eof", timeout_ms=8000, label="uprest", keep=70000)]
        else:
            ci["server"]["default_ops"] = [op("recv_http_head", label="upreq", max=200000, keep=200000), send(b"HTTP/1.1 200 OK\r\n\r\n"), op("sleep", ms=300), op("shutdown"),
                                           op("recv_eof", timeout_ms=8000, label="uprest", keep=70000)]
    elif outb == "socks5":
        ci = sc.add_socks_connector("u", version=5)
        if udp:
            uip = ci["ip"]
            relay_port = sc.port()
            ci["server"]["default_ops"] = [op("recv_n", n=3, label="upgreet"), send(b"\x05\x00"), op("recv_socks5_reply", label="upreq", keep=1000),
                                           send(bytes([5, 0, 0, 1]) + ipaddress.ip_address(uip).packed + relay_port.to_bytes(2, "big")), op("recv_eof", timeout_ms=8000, label="uprest")]
            sc.actors.append({"essential": True, "kind": "udp", "id": "uprelay", "bind": "%s:%d" % (uip, relay_port), "ops": []})
        else:
            ci["server"]["default_ops"] = [op("recv_n", n=3, label="upgreet"), send(b"\x05\x00"), op("recv_socks5_reply", label="upreq", keep=1000, timeout_ms=4000),
                                           send(bytes([5, 0, 0, 1, 0, 0, 0, 0, 0, 0])), op("sleep", ms=300), op("shutdown"), op("recv_eof", timeout_ms=8000, label="uprest", keep=70000)]
    elif outb == "socks4":
        ci = sc.add_socks_connector("u", version=4)
        ci["server"]["default_ops"] = [op("recv_socks4_request", label="upreq", keep=80000, timeout_ms=4000), send(bytes([0, 90, 0, 0, 0, 0, 0, 0])), op("sleep", ms=300), op("shutdown"),
                                       op("recv_eof", timeout_ms=8000, label="uprest", keep=70000)]
    else:
        ci = sc.add_direct("u")
        # every name resolves to one origin; IPs are dialled directly: a catch-all origin records the contact
        try:
            sc.dns[host.decode("utf-8")] = ["10.9.200.1"]
        except UnicodeDecodeError:
            pass
        for alt in (b"good.sim", b"evil.sim", b"other.sim", b"host.sim", b"b.sim"):
            sc.dns.setdefault(alt.decode(), ["10.9.200.2"])
        for oip in ("10.9.200.1", "10.9.200.2"):
            sc.add_origin("%s:%d" % (oip, port), default_ops=[op("sleep", ms=100), op("shutdown"), op("recv_eof", timeout_ms=8000)], oid="origin-" + oip)
        if kind != "domain":
            sc.add_origin(("[%s]:%d" if kind == "ipv6" else "%s:%d") % (host.decode(), port), default_ops=[op("sleep", ms=100), op("shutdown"), op("recv_eof", timeout_ms=8000)], oid="origin-ip")
    sc.rule(ci["name"])
    # client
    marker = b"PAYLOAD-%08x" % rng.getrandbits(32)
    if inb == "http" or inb == "httpudp":
        if kind == "ipv6":
            target = b"[" + host + b"]:" + str(port).encode()
        else:
            target = host + b":" + str(port).encode()
        hdrs = [("Host", target)] + ([("Proxy-Protocol", "udp")] if udp else [])
        if not udp and rng.random() < 0.25:
            # the destination of a CONNECT request is the authority in its request line; a Host header that names
            # something else (another port, another host, an address) must not redirect the tunnel
            hdrs[0] = ("Host", rng.choice([b"evil.sim:%d" % port, host + b":%d" % ((port + 1) % 65536), b"10.9.200.2:%d" % port, b"evil.sim", host, b"[fd09::bad]:%d" % port]))
        req = rc.http_connect(target, hdrs)
        if udp:
            if kind == "domain" and len(host) > 253:
                host = host[:253]   # an inbound frame cannot carry more (one length byte for name + port)
                target = host + b":" + str(port).encode()
                hdrs = [("Host", target), ("Proxy-Protocol", "udp")]
                req = rc.http_connect(target, hdrs)
            frame = rc.rpfm_frame(0, host if kind == "domain" else host.decode(), port, marker)
            ops = [send(req), op("recv_http_head", label="reply", on_fail="continue", timeout_ms=5000), send(frame, on_fail="continue"), op("recv_eof", timeout_ms=9000, label="rest", on_fail="continue")]
        else:
            ops = [send(req), op("recv_http_head", label="reply", on_fail="continue", timeout_ms=6000), op("recv_eof", timeout_ms=9000, label="rest", on_fail="continue")]
        proto = "http"
    elif inb == "socks4a":
        req = rc.socks4_request(1, host if kind == "domain" else host.decode(), port, b"u")
        if rng.random() < 0.5:
            # payload pipelined behind the request (it may contain anything, also what looks like a SOCKS4a name)
            req += b"evil.sim\0" + marker
        ops = [send(req), op("recv_n", n=8, label="reply", on_fail="continue", timeout_ms=6000), op("recv_eof", timeout_ms=9000, label="rest", on_fail="continue")]
        proto = "socks4a"
    elif inb == "socks5":
        h = host if kind == "domain" else host.decode()
        if kind == "domain":
            h = h[:255] if len(h) > 255 else h   # SOCKS5 cannot carry more than 255 bytes
            host = h
        req = rc.socks5_greeting([0]) + (rc.socks5_request(1, h, port, force_domain=True) if kind == "domain" else rc.socks5_request(1, h, port))
        ops = [send(req), op("recv_n", n=2, label="method", on_fail="continue", timeout_ms=6000), op("recv_socks5_reply", label="reply", on_fail="continue", timeout_ms=6000),
               op("recv_eof", timeout_ms=9000, label="rest", on_fail="continue")]
        proto = "socks5"
    else:  # socks5udp: associate, then one datagram whose header names the destination
        h = host if kind == "domain" else host.decode()
        if kind == "domain" and len(h) > 255:
            h = h[:255]
            host = h
        ops = [send(rc.socks5_greeting([0]) + rc.socks5_request(3, "0.0.0.0", 0)), op("recv_n", n=2, label="method", on_fail="continue"), op("recv_socks5_reply", label="reply", on_fail="continue", timeout_ms=6000),
               op("set", flag="assoc"), op("recv_eof", timeout_ms=9000, label="rest", on_fail="continue")]
        hdr = b"\0\0\0" + (bytes([3, len(h)]) + h + port.to_bytes(2, "big") if kind == "domain" else rc.socks_addr(h, port))
        sc.actors.append({"kind": "udp", "id": "uc", "bind": "10.1.0.1:7300", "ops": [op("wait", flag="assoc", timeout_ms=8000), op("send", to="socks5reply:c", hex=(hdr + marker).hex()), op("sleep", ms=1500)]})
        proto = "socks5"
    sc.add_client("c", li, ops, start_ms=10, src="10.1.0.1")
    sc.meta = {"cls": "%s>%s" % (inb, outb), "cfgkey": "%s>%s/%s/%d" % (inb, outb, hclass, port), "inb": inb, "outb": outb, "host": host.hex(), "kind": kind, "port": port,
               "hclass": hclass, "proto": proto, "udp": udp, "marker": marker.hex(), "keep_ops": True}
    sc.max_ms = 40000
    return sc.plan(want_events=True)


def _is_ip(b):
    try:
        ipaddress.ip_address(b.decode("ascii"))
        return True
    except (ValueError, UnicodeDecodeError):
        return False


def same_dest(kind, host, port, got_kind, got_host, got_port):
    if got_port != port:
        return False
    if kind == "domain":
        # a domain that is a valid dotted quad / IPv6 literal may be forwarded as that address
        if got_kind == "domain":
            return got_host == host
        try:
            return ipaddress.ip_address(host.decode("ascii")) == ipaddress.ip_address(got_host) and str(ipaddress.ip_address(host.decode("ascii"))) == host.decode("ascii")
        except (ValueError, UnicodeDecodeError):
            return False
    try:
        want = ipaddress.ip_address(host.decode())
        if want.version == 6 and want.ipv4_mapped is not None and got_kind != "domain":
            # ::ffff:a.b.c.d denotes the IPv4 host a.b.c.d: either spelling is the same destination
            g = ipaddress.ip_address(got_host)
            return g == want or g == want.ipv4_mapped
        if got_kind == "domain":
            return ipaddress.ip_address(got_host.decode("ascii").strip("[]")) == want
        return ipaddress.ip_address(got_host) == want
    except (ValueError, UnicodeDecodeError):
        return False


def oracle(plan, out):
    R = G.Result(out)
    meta = plan["meta"]
    V = []
    pair = meta["cls"]

    def v(clause, text):
        V.append(Violation(ID, clause, "C03/%s/%s/%s" % (clause, pair, meta["hclass"]), text))

    if out["hung"] or not R.ok:
        v("crash", "process ended or hung: exit=%s %s" % (out["exit"], (out["stderr"] or "")[-300:]))
        return V
    for p in R.panics():
        v("panic", "panic at %s: %s" % (p.get("loc"), p.get("msg", "")))
    host = bytes.fromhex(meta["host"])
    kind, port = meta["kind"], meta["port"]
    told = reply_ok(meta["proto"], R.op_by_label("c", "reply"))
    asked = "%s %r port %d" % (kind, host[:80] + (b"..." if len(host) > 80 else b""), port)
    outb = meta["outb"]
    got = None      # (kind, host, port) parsed by the next hop's reference parser
    complete = False
    injected = None
    if outb == "http":
        u = None
        for r in R.records:
            if r.get("label") == "upreq":
                u = r
        if u is not None and u["res"] == "ok":
            raw = bytes.fromhex(u["hex"])
            try:
                mth, target, ver, hdrs, rest = rc.parse_http_request(raw)
                complete = True
                if mth != b"CONNECT":
                    injected = "method %r" % mth
                hp = target.rsplit(b":", 1)
                if len(hp) != 2 or not hp[1].isdigit():
                    injected = "target %r is not host:port" % target[:80]
                else:
                    th = hp[0]
                    # authority-form (RFC 7230 5.3.3, RFC 3986 3.2.2): host = IP-literal / IPv4address / reg-name. Brackets
                    # delimit an IPv6 literal and nothing else; ":", "/", "?", "#", "[", "]", "@" cannot occur in a reg-name
                    # (a next hop that parses the authority as a URI takes "a@b" for host b, "[::1]" for the address ::1)
                    if th.startswith(b"[") and th.endswith(b"]"):
                        try:
                            a6 = ipaddress.IPv6Address(th[1:-1].decode("ascii"))
                            got = ("ipv6", th[1:-1].decode("latin1"), int(hp[1])) if kind == "ipv6" else ("ip", str(a6), int(hp[1]))
                        except (ValueError, UnicodeDecodeError):
                            injected = "brackets around something that is not an IPv6 literal in the request target %r" % target[:80]
                    elif any(c in b"/?#[]@" for c in th) or (b":" in th and not _is_ip(th)):
                        injected = "delimiter inside the host part of the request target %r" % target[:80]
                    else:
                        try:
                            if ipaddress.ip_address(th.decode("ascii")).version == 6:
                                # an IPv6 literal in an authority must be bracketed: without brackets "a:b::c:443" is ambiguous
                                # (it is itself an address, and the next hop cannot know where the port begins)
                                injected = "IPv6 literal without brackets in the request target %r" % target[:80]
                            got = ("ip", th.decode("ascii"), int(hp[1]))
                        except (ValueError, UnicodeDecodeError):
                            got = ("domain", th, int(hp[1]))
                allowed = {"host": 1, "proxy-protocol": 1, "proxy-channel": 1}
                seen = {}
                for k, val in hdrs:
                    seen[k.lower()] = seen.get(k.lower(), 0) + 1
                    if k.lower() not in allowed:
                        injected = "unexpected header %s: %s" % (k, val[:60])
                    if k.lower() == "host" and val.encode("latin1") != target:
                        injected = "Host header %r differs from the request target %r" % (val[:60], target[:60])
                if any(c > 1 for c in seen.values()):
                    injected = "duplicated header in %s" % list(seen)
            except rc.ParseError as e:
                complete = True
                injected = "next hop cannot parse the request head: %s (%r)" % (e, raw[:100])
        if meta["udp"]:
            got = None
            f = None
            for r in R.records:
                if r.get("label") == "upframe":
                    f = r
            if f is not None and f["res"] == "ok":
                try:
                    sess, fk, fh, fp, body, rest = rc.parse_rpfm(bytes.fromhex(f["hex"]))
                    if body != bytes.fromhex(meta["marker"]):
                        injected = "frame body %r differs from the datagram sent" % body[:40]
                    elif fk is None:
                        injected = "frame without a destination"
                    else:
                        got = ("domain" if fk == "domain" else "ip", fh, fp)
                except rc.ParseError as e:
                    injected = "next hop cannot parse the frame: %s" % e
    elif outb == "socks5":
        u = None
        for r in R.records:
            if r.get("label") == "upreq":
                u = r
        if u is not None and u["res"] == "ok":
            try:
                cmd, gk, gh, gp, rest = rc.parse_socks5_request(bytes.fromhex(u["hex"]))
                complete = True
                if not meta["udp"]:
                    got = ("domain" if gk == "domain" else "ip", gh, gp)
                    if rest:
                        injected = "bytes after the request: %r" % rest[:40]
                else:
                    got = None
            except rc.ParseError as e:
                complete = True
                injected = "next hop cannot parse the request: %s" % e
        if meta["udp"]:
            dg = [r for r in R.records if r.get("actor") == "uprelay" and r.get("udp") == "recv"]
            if dg:
                complete = True
                try:
                    frag, gk, gh, gp, payload = rc.parse_socks5_udp(bytes.fromhex(dg[0]["hex"]) if dg[0]["len"] <= 512 else b"")
                    got = ("domain" if gk == "domain" else "ip", gh, gp)
                    if payload != bytes.fromhex(meta["marker"]):
                        injected = "datagram payload %r differs from what was sent" % payload[:40]
                except rc.ParseError as e:
                    injected = "next hop cannot parse the UDP header: %s" % e
            else:
                complete = False
    elif outb == "socks4":
        u = None
        for r in R.records:
            if r.get("label") == "upreq":
                u = r
        if u is not None and u["res"] == "ok":
            try:
                cmd, gk, gh, gp, uid, rest = rc.parse_socks4_request(bytes.fromhex(u["hex"]))
                complete = True
                got = ("domain" if gk == "domain" else "ip", gh, gp)
                if rest:
                    injected = "bytes after the request: %r" % rest[:40]
            except rc.ParseError as e:
                complete = True
                injected = "next hop cannot parse the request: %s" % e
        elif u is not None and u.get("hex") and (u["res"].startswith("timeout") or u["res"].startswith("eof")):
            # bytes were sent, but they are not a complete SOCKS4/4a request for the reader on the other side
            # (e.g. an address in the 0.0.0.x marker range with no name behind it): sent truncated or ambiguous
            complete = True
            injected = "next hop received a request it cannot complete (%s): %s" % (u["res"], u["hex"][:60])
    else:  # direct: what was resolved / dialled
        names = [e[5] for e in R.events if e[2] == "dns"]
        dials = [e[5].split(">")[1] for e in R.events if e[2] == "tcp_connect" and e[5].startswith("proxy>")]
        if dials:
            complete = True
            d = dials[0]
            dip, dport = d.rsplit(":", 1)
            if kind == "domain":
                if names:
                    got = ("domain", names[0].encode("utf-8"), int(dport))
                else:
                    got = ("ip", dip.strip("[]"), int(dport))
            else:
                got = ("ip", dip.strip("[]"), int(dport))
    if injected:
        v("injected", "asked for %s; %s" % (asked, injected))
    if complete and got is not None and not same_dest(kind, host, port, got[0], got[1], got[2]):
        gh = got[1] if isinstance(got[1], bytes) else str(got[1]).encode()
        v("reinterpreted", "client asked for %s but the next hop (%s) was asked for %s %r port %d" % (asked, outb, got[0], gh[:80], got[2]))
    if told and not complete and not meta["udp"]:
        v("established-without-request", "client was told 'established' for %s but the next hop (%s) never saw a complete request" % (asked, outb))
    return V


def probes(plan, out):
    meta = plan["meta"]
    R = G.Result(out)
    told = reply_ok(meta["proto"], R.op_by_label("c", "reply")) if R.ok else False
    return {"nontrivial": meta["hclass"] not in ("plain",), "established": bool(told), "refused": not told, "udp": meta["udp"], "hostile_bytes": meta["hclass"] in ("crlf", "lf", "nul", "space", "nonutf8", "latin1", "tab")}
