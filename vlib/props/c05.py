"""C05 — no remote input can crash or wedge the proxy."""
import struct

from .. import gen as G, refcodec as rc
from ..core import Violation
from ..gen import Scenario, op, send, tag_header, TAG_XOR, pki
from .c01 import reply_ok

ID = "C05"
BUDGET = {"quick": 45, "thorough": 900}
MAX_RUNS = {"quick": 8000, "thorough": 400000}
TECHNIQUE = "deterministic simulation with fault injection: grammar-aware hostile bytes, datagrams, truncations, stalls and hostile upstream replies against every listener and connector of the real binary (panic = unwind so a run can report), canary connections as liveness oracle"
RULE = ("plans: 1-6 hostile peers (mutated HTTP/SOCKS4/SOCKS5/auth messages: flips, truncation at a seeded offset, boundary lengths, huge method/header counts, noise; TLS "
        "garbage; RPFM frames with extreme header fields on a UDP-over-HTTP stream; garbage SOCKS-UDP datagrams; 0-3 byte and arbitrary QUIC datagrams and garbage QUIC "
        "streams from a real quinn client; valid prefix then disconnect or stall) and hostile upstreams (bad status lines, oversized/odd headers, non-numeric Session-Id, "
        "bogus SOCKS replies, early close) behind http/socks/quic connectors; canary tunnels on every listener during and after; non-trivial = at least one hostile "
        "message was consumed by a decoder (the proxy read >= 1 byte or datagram of it); distinct = event-order hash")
RULE_MORE = 'Later additions: valid multi-byte text straddling arbitrary byte offsets; accept(2) errors and a descriptor limit; tiny QUIC datagram limits; floods of junk datagrams; well-formed upstream replies that announce absurd lengths (Content-Length, Session-Id).'
LEVEL_TEXT = ("seeded exploration of the real decoders in place (listeners, connectors, frame readers, QUIC datagram thread): the shipped profile aborts on any panic, so the "
              "shadow build unwinds and a panic hook records message and location; any panic, a dead process, or a canary that is not served within 5 virtual s is a violation")
LEVEL_NOTE = "hostile input length is capped per plan (<= 70 KB), so unbounded buffering is not judged; the TPROXY listener is only reached in TCP mode (no peer-controlled parsing there), its UDP mode (recvmsg control messages) is not simulated; component-level volume for the fragment decoder is in C11"
ASSUMPTIONS = []


def mutate(rng, data, hard=False):
    b = bytearray(data)
    for _ in range(rng.randint(1, 4)):
        k = rng.randrange(9)
        if k == 0 and b:
            b[rng.randrange(len(b))] ^= 1 << rng.randrange(8)
        elif k == 1 and b:
            del b[rng.randrange(len(b)):]
        elif k == 2:
            b += rng.randbytes(rng.choice([1, 8, 300]))
        elif k == 3 and b:
            b[rng.randrange(len(b))] = rng.choice([0, 1, 0x7f, 0x80, 0xff])
        elif k == 4 and b:
            i = rng.randrange(len(b))
            b[i:i] = bytes([rng.choice([0, 0xff, 0x0d, 0x0a, 0x20])]) * rng.choice([1, 2, 300])
        elif k == 5 and b:
            i, j = sorted((rng.randrange(len(b)), rng.randrange(len(b))))
            b[i:j] = b""
        elif k == 6 and b:
            i, j = sorted((rng.randrange(len(b)), rng.randrange(len(b))))
            b[j:j] = b[i:j] * rng.choice([1, 3])
        elif k == 7:
            b = bytearray(rng.randbytes(rng.choice([1, 5, 64, 4000])))
        elif k == 8 and len(b) >= 2:
            i = rng.randrange(len(b) - 1)
            b[i:i + 2] = struct.pack(">H", rng.choice([0, 1, 0x7fff, 0x8000, 0xffff]))
    return bytes(b[:70000])


def hostile_rpfm(rng):
    """a frame with a well-formed length prefix whose address attribute is drawn from the (tag, length byte, actual size) grid"""
    tag = rng.choice([0, 1, 2, 3, 3, 3, 4, 9, 255])
    ln = rng.choice([0, 0, 1, 1, 2, 3, 5, 6, 7, 17, 18, 19, 100, 255])
    actual = rng.choice([0, 1, 2, 3, 4, 6, 8, 18, 20, ln, ln + 1, max(0, ln - 1), 300])
    attr = bytes([tag, ln]) + rng.randbytes(actual)
    if rng.random() < 0.2:
        attr = attr[:rng.randint(0, len(attr))]
    body = rng.randbytes(rng.choice([0, 1, 30]))
    return struct.pack(">IIHH", rc.RPFM, rng.getrandbits(32), len(attr), len(body)) + attr + body


def hostile_http(rng, oaddr):
    k = rng.randrange(11)
    if k == 10:
        # well-formed request with unusual but valid text in the authority and in header values
        name = odd_text(rng).decode().encode()
        return (b"CONNECT " + rng.choice([oaddr.encode(), name + b":80"]) + b" HTTP/1.1\r\nHost: " + rng.choice([oaddr.encode(), name]) +
                b"\r\nProxy-Authorization: Basic " + odd_text(rng) + b"\r\nUser-Agent: " + odd_text(rng) + b"\r\n\r\n")
    base = rc.http_connect(oaddr)
    if k == 0:
        return mutate(rng, base)
    if k == 1:
        return b"CONNECT " + b"A" * rng.choice([1000, 20000, 69000]) + b":80 HTTP/1.1\r\n\r\n"
    if k == 2:
        return b"CONNECT " + oaddr.encode() + b" HTTP/1.1\r\n" + b"".join(b"X-%d: y\r\n" % i for i in range(rng.choice([100, 2000]))) + b"\r\n"
    if k == 3:
        return b"CONNECT " + oaddr.encode() + b" HTTP/1.1\r\nProxy-Protocol: udp\r\nProxy-Channel: " + rng.choice([b"quic-datagrams", b"inline", b"x" * 300, b""]) + b"\r\nUdp-Bind-Source: " + rng.choice([b"a", b"1.2.3.4:5", b"\xff\xfe"]) + b"\r\n\r\n"
    if k == 4:
        return rng.choice([b"\r\n", b"\n\n\n", b" \r\n\r\n", b"CONNECT\r\n\r\n", b"CONNECT  HTTP/1.1\r\n\r\n", b"CONNECT :: HTTP/1.1\r\n\r\n", b"CONNECT a:99999 HTTP/1.1\r\n\r\n",
                           b"CONNECT [::1 HTTP/1.1\r\n\r\n", b"CONNECT a:-1 HTTP/1.1\r\n\r\n", b"GET http://x/ HTTP/1.0\r\n\r\n", b"CONNECT x:1 HTTP/9.9\r\nA\r\n\r\n"])
    if k == 5:
        return base[:rng.randint(0, len(base))]
    if k == 6:
        return b"CONNECT " + oaddr.encode() + b" HTTP/1.1\r\nHost: \xff\xfe\x00\r\n\r\n"
    if k == 7:
        return rng.randbytes(rng.choice([1, 3, 100, 5000]))
    if k == 8:
        # udp over http, then hostile frames
        frames = b""
        for _ in range(rng.randint(0, 3)):
            frames += hostile_rpfm(rng)
        for _ in range(rng.randint(1, 4)):
            f = rc.rpfm_frame(rng.getrandbits(32), rng.choice(["1.2.3.4", "fd00::9", "a", "abc", "host.sim", None]), rng.randint(0, 65535), rng.randbytes(rng.choice([0, 1, 50])))
            frames += mutate(rng, f) if rng.random() < 0.7 else f
        frames += rng.choice([b"", b"RPFM", b"RPFM" + b"\0" * 7, b"RPFM\0\0\0\1\xff\xff\xff\xff", b"XXXX" + b"\0" * 8, b"RPFM\0\0\0\1\0\x08\0\0\x03\x06abcd\0\x01", b"RPFM\0\0\0\1\0\x04\0\0\x03\x02\0\x01",
                              b"RPFM\0\0\0\1\0\x08\0\0\x09\x06\1\2\3\4\0\1", b"RPFM\0\0\0\1\0\x03\0\0\x01\x06\x01"])
        return b"CONNECT " + oaddr.encode() + b" HTTP/1.1\r\nProxy-Protocol: udp\r\n\r\n" + frames
    return mutate(rng, base, True) + mutate(rng, base)


def odd_text(rng, maxlen=255):
    """valid UTF-8 with a multi-byte character straddling an arbitrary byte offset (code that cuts, pads or counts decoded
    text at a fixed byte position must cope): n ASCII bytes, one 2-4 byte character, then a mixed tail"""
    n = rng.choice([rng.randint(0, 70), rng.choice([126, 127, 128, 250, 251, 252, 253])])
    ch = rng.choice(["\u00e9", "\u20ac", "\u65e5", "\U0001f600"])
    tail = "".join(rng.choice(["a", "\u00e9", "\u20ac", "\U0001f600", "."]) for _ in range(rng.choice([0, 1, 5, 40])))
    b = ("a" * n + ch + tail).encode()[:maxlen]
    while True:
        try:
            b.decode()
            return b
        except UnicodeDecodeError:
            b = b[:-1]


def hostile_socks(rng, oip, oport):
    k = rng.randrange(12)
    if k == 10:
        # well-formed messages carrying unusual but valid text: user name, password, SOCKS4 id, domain name
        which = rng.randrange(4)
        if which == 0:
            return rc.socks5_greeting([2]) + rc.socks5_userpass(odd_text(rng), rng.choice([b"p", odd_text(rng)])) + rc.socks5_request(1, oip, oport)
        if which == 1:
            return rc.socks5_greeting([rng.choice([0, 2])]) + rc.socks5_userpass(b"alice", odd_text(rng)) + rc.socks5_request(1, oip, oport)
        if which == 2:
            return rc.socks4_request(1, oip, oport, odd_text(rng, 300))
        name = odd_text(rng)
        return rc.socks5_greeting([0]) + bytes([5, 1, 0, 3, len(name)]) + name + bytes([oport >> 8, oport & 255])
    if k == 11:
        return rc.socks5_greeting([0, 2]) + rc.socks5_userpass(odd_text(rng), odd_text(rng)) + rc.socks5_request(1, oip, oport)
    v5 = rc.socks5_greeting([0]) + rc.socks5_request(1, oip, oport)
    if k == 0:
        return mutate(rng, v5)
    if k == 1:
        return bytes([5, 255]) + rng.randbytes(rng.choice([0, 10, 255, 300]))
    if k == 2:
        return rc.socks5_greeting([0]) + bytes([5, rng.choice([0, 1, 2, 3, 4, 255]), rng.randrange(256), rng.choice([0, 1, 2, 3, 4, 5, 255])]) + rng.randbytes(rng.choice([0, 1, 6, 18, 300]))
    if k == 3:
        return rc.socks5_greeting([0]) + bytes([5, 1, 0, 3, rng.choice([0, 1, 255])]) + rng.randbytes(rng.choice([0, 1, 254, 257]))
    if k == 4:
        return mutate(rng, rc.socks4_request(1, rng.choice([oip, "name.sim"]), oport, b"u" * rng.choice([0, 1, 300])))
    if k == 5:
        return bytes([4, rng.randrange(256)]) + rng.randbytes(rng.choice([0, 2, 6])) + b"x" * rng.choice([0, 5000, 69000])
    if k == 6:
        return v5[:rng.randint(0, len(v5))]
    if k == 7:
        return bytes([rng.choice([0, 1, 2, 3, 6, 0x16, 0x47, 255])]) + rng.randbytes(rng.choice([0, 20]))
    if k == 8:
        return rc.socks5_greeting([2]) + mutate(rng, rc.socks5_userpass(b"u" * rng.choice([0, 1, 255]), b"p" * rng.choice([0, 255]))) + rc.socks5_request(1, oip, oport)
    return rc.socks5_greeting([0]) + rc.socks5_request(3, "0.0.0.0", 0)   # udp associate, garbage datagrams follow


def hostile_upstream_http(rng):
    k = rng.randrange(10)
    if k == 9:
        # a well-formed reply (refusal or grant) whose header announces a length nobody could hold: sizes are the peer's to choose
        n = rng.choice([b"18446744073709551615", b"18446744073709551616", b"9223372036854775807", b"9223372036854775808", b"70368744177664", b"4294967296", b"-1", b"1e99"])
        code = rng.choice([b"403 Forbidden", b"407 Proxy Authentication Required", b"502 Bad Gateway", b"200 OK", b"503 Service Unavailable"])
        hdr = rng.choice([b"Content-Length", b"Content-Length", b"content-length", b"Session-Id", b"Retry-After"])
        return b"HTTP/1.1 " + code + b"\r\n" + hdr + b": " + n + b"\r\n\r\n" + rng.choice([b"", b"no", b"x" * 300])
    if k == 0:
        return mutate(rng, b"HTTP/1.1 200 Connection established\r\n\r\n")
    if k == 1:
        return b"HTTP/1.1 200 OK\r\nSession-Id: " + rng.choice([b"abc", b"-1", b"99999999999999999999", b"", b" 7", b"\xff"]) + b"\r\n\r\n"
    if k == 2:
        return b"HTTP/1.1 " + rng.choice([b"99999", b"-200", b"2e2", b"", b"200.0"]) + b" OK\r\n\r\n"
    if k == 3:
        return b"HTTP/1.1 200 OK\r\n" + b"".join(b"H%d: v\r\n" % i for i in range(rng.choice([500, 3000]))) + b"\r\n"
    if k == 4:
        return b"HTTP/1.1 200 " + b"x" * rng.choice([5000, 69000]) + b"\r\n\r\n"
    if k == 5:
        return rng.randbytes(rng.choice([1, 10, 3000])) + b"\r\n\r\n"
    if k == 6:
        return b"HTTP/1.1 200 OK\r\nNoColonHere\r\n\r\n"
    if k == 7:
        return b"HTTP/1.1 200 OK\r\nSession-Id: 3\r\n\r\n" + rng.choice([b"RPFM", b"RPFM\0\0\0\1\xff\xff\xff\xff", rng.randbytes(40), b"RPFM\0\0\0\1\0\x08\0\0\x03\x06abcd\0\x01",
                                                                    hostile_rpfm(rng), hostile_rpfm(rng) + hostile_rpfm(rng)])
    return b"\r\n\r\n"


def hostile_upstream_socks(rng):
    k = rng.randrange(7)
    if k == 0:
        return b"\x05\x00" + mutate(rng, bytes([5, 0, 0, 1, 1, 2, 3, 4, 0, 80]))
    if k == 1:
        return bytes([rng.randrange(256), rng.randrange(256)])
    if k == 2:
        return b"\x05\x00" + bytes([5, 0, 0, 3, 255]) + rng.randbytes(rng.choice([0, 10, 257]))
    if k == 3:
        return b"\x05\xff"
    if k == 4:
        return b"\x05\x00" + bytes([rng.choice([0, 4, 6, 255]), 0, 0, rng.choice([0, 2, 5, 255])]) + rng.randbytes(20)
    if k == 5:
        return b"\x05\x02\x01\x00" + rng.randbytes(5)
    return rng.randbytes(rng.choice([1, 30]))


def gen_fdx(rng, tier, i):
    """descriptor exhaustion on the kernel lane (real descriptors: socket pairs, dup(2) and pipe(2) of the splice path):
    a client opens more tunnels than the process may hold descriptors for; the limit is lifted later. Nothing may panic,
    and once descriptors are available again every listener serves."""
    sc = Scenario(rng)
    sc.net["backend"] = "kernel"
    sc.net["spawn_yield"] = 0
    sc.cfg["timeouts"] = {"idle": 4, "udp": 4}
    sc.cfg["ioParams"] = {"bufferSize": rng.choice([4096, 65536]), "useSplice": rng.random() < 0.8}
    lis = {"http": sc.add_http_listener("l-http"), "socks": sc.add_socks_listener("l-socks")}
    oip, oport = sc.origin_ip(), sc.port()
    lis["rev"] = sc.add_reverse_listener("l-rev", "%s:%d" % (oip, oport))
    sc.add_direct("d")
    sc.rule("d")
    sc.add_origin("%s:%d" % (oip, oport), default_ops=[op("serve_tagged", timeout_ms=8000)], oid="origin")
    limit = rng.choice([30, 40, 60, 90, 140])
    t_low, t_high = 300, 6000
    sc.faults.append({"at_ms": t_low, "kind": "fd_limit", "n": limit})
    sc.faults.append({"at_ms": t_high, "kind": "fd_limit", "n": 0})
    hostile = []
    for k in range(rng.choice([8, 16, 30])):
        lk = rng.choice(["http", "socks", "rev"])
        li = lis[lk]
        seed = rng.getrandbits(60) | 1
        hs, proto = sc.client_handshake(li, oip, oport, variant="5p" if lk == "socks" else None)
        ops = [dict(o, on_fail="continue", timeout_ms=5000) for o in hs] + [send(tag_header(seed, 50, 50, 1), on_fail="continue"), op("send", fill=[seed, 50], on_fail="continue"),
                                                                            op("sleep", ms=rng.choice([500, 3000, 7000])), op("close")]
        sc.add_client("x%d" % k, li, ops, start_ms=t_low + 50 + 20 * k)
        hostile.append({"cid": "x%d" % k, "kind": "fd-exhaustion"})
    canaries = []
    for n, lk in enumerate(["http", "socks", "rev"]):
        li = lis[lk]
        seed = rng.getrandbits(60) | 1
        hs, proto = sc.client_handshake(li, oip, oport, variant="5p" if lk == "socks" else None)
        ops = [dict(o, timeout_ms=9000) for o in hs] + [op("par", w=[send(tag_header(seed, 100, 100)), op("send", fill=[seed, 100]), op("shutdown")],
                                                           r=[op("expect", fill=[seed ^ TAG_XOR, 100], timeout_ms=9000, label="s2c"), op("recv_eof", timeout_ms=9000, label="eof")])]
        sc.add_client("end-" + lk, li, ops, start_ms=t_high + 8000 + 10 * n)
        canaries.append({"cid": "end-" + lk, "lk": lk, "proto": proto, "at": t_high + 8000 + 10 * n})
    sc.meta = {"cls": "fdx/%d" % limit, "cfgkey": "fdx/%d/%d/%s" % (limit, len(hostile), sc.cfg["ioParams"]["useSplice"]), "hostile": hostile, "canaries": canaries, "keep_ops": True}
    sc.max_ms = t_high + 40000
    return sc.plan(want_events=False)


def gen(rng, tier, i):
    if rng.random() < 0.08:
        return gen_fdx(rng, tier, i)
    sc = Scenario(rng)
    cname, chaos = G.pick_chaos(rng, weights=(("none", 2), ("mild", 3), ("heavy", 2)))
    if chaos:
        chaos["capacity"] = 1 << 20
    sc.net["chaos"] = chaos
    sc.net["spawn_yield"] = rng.choice([0, 300])
    sc.net["lock_yield"] = rng.choice([0, 0, 300])   # seeded scheduling points at the asynchronous locks
    sc.cfg["timeouts"] = {"idle": 4, "udp": 4}
    sc.cfg["ioParams"] = {"bufferSize": rng.choice([16, 4096, 65536]), "useSplice": False}
    lis = {"http": sc.add_http_listener("l-http"), "https": sc.add_http_listener("l-https", tls=True), "socks": sc.add_socks_listener("l-socks"),
           "socksauth": sc.add_socks_listener("l-socksauth", auth={"required": True, "users": [{"username": "alice", "password": "s3cret"}]})}
    use_quic = rng.random() < (0.5 if tier == "thorough" else 0.3)
    if use_quic:
        lis["quic"] = sc.add_quic_listener("l-quic")
    oip, oport = sc.origin_ip(), sc.port()
    oaddr = "%s:%d" % (oip, oport)
    lis["rev"] = sc.add_reverse_listener("l-rev", oaddr)
    lis["revudp"] = sc.add_reverse_listener("l-revudp", "%s:%d" % (oip, oport + 1), protocol="udp")
    sc.add_direct("d")
    sc.add_origin(oaddr, default_ops=[op("serve_tagged", timeout_ms=8000)], oid="origin")
    sc.actors.append({"essential": True, "kind": "udp", "id": "uorigin", "bind": "%s:%d" % (oip, oport + 1), "echo": True, "ops": []})
    # hostile upstreams
    hu = sc.add_http_connector("hu-http")
    hs_ = sc.add_socks_connector("hu-socks", version=rng.choice([4, 5]))
    up_scripts = []
    for ci, fn in ((hu, hostile_upstream_http), (hs_, hostile_upstream_socks)):
        conns = []
        for _ in range(6):
            junk = fn(rng)
            pre = [op("recv_n", n=rng.choice([1, 3]), timeout_ms=3000, on_fail="continue")]
            tail = rng.choice([[op("close")], [op("sleep", ms=200), op("reset")], [op("recv_eof", timeout_ms=6000, on_fail="continue")], [op("sleep", ms=6000)]])
            conns.append(pre + [send(junk, on_fail="continue")] + tail)
        ci["server"]["conns"] = conns
        ci["server"]["default_ops"] = [op("close")]
    if use_quic:
        hq = sc.add_quic_connector("hu-quic")
        hq["server"]["streams"] = [[op("recv_n", n=1, timeout_ms=3000, on_fail="continue"), send(hostile_upstream_http(rng), on_fail="continue"),
                                    op("recv_eof", timeout_ms=5000, on_fail="continue")] for _ in range(4)]
        hq["server"]["echo_datagrams"] = False
    if use_quic:
        # a well-behaved QUIC upstream that advertises a tiny max_datagram_frame_size: UDP frames towards it cannot be sent as datagrams
        tq = sc.add_quic_connector("tiny-quic")
        tq["server"]["default_ops"] = [op("recv_http_head", label="upreq", timeout_ms=5000, on_fail="continue"), send(b"HTTP/1.1 200 OK\r\nSession-Id: 5\r\n\r\n", on_fail="continue"),
                                       op("recv_eof", timeout_ms=6000, on_fail="continue")]
        tq["server"]["dgram_buf"] = rng.choice([1, 9, 10, 13, 14, 20])
        sc.rule("tiny-quic", 'request.target.port == 7004')
    sc.rule("hu-http", 'request.target.port == 7001')
    sc.rule("hu-socks", 'request.target.port == 7002')
    if use_quic:
        sc.rule("hu-quic", 'request.target.port == 7003')
    sc.rule("d")
    hostile = []
    nh = rng.randint(1, 6)
    t = 50
    for k in range(nh):
        kind = rng.choice(["http", "http", "https-raw", "socks", "socks", "socksauth", "rev", "up-http", "up-socks", "sudp", "revudp"] + (["quic-dgram", "quic-stream", "up-quic", "tiny-dgram"] if use_quic else []) + ["accept-error"])
        cid = "x%d" % k
        end = rng.choice([[op("close")], [op("shutdown"), op("recv_eof", timeout_ms=6000, on_fail="continue")], [op("sleep", ms=rng.choice([100, 9000]))], [op("reset")]])
        if kind == "http":
            msg = hostile_http(rng, oaddr)
            sc.add_client(cid, lis["http"], [send(msg, on_fail="continue", cuts=[rng.randint(1, max(1, len(msg) - 1))] if len(msg) > 2 and rng.random() < 0.3 else [], gap_ms=3)] + end, start_ms=t)
        elif kind == "https-raw":
            a = sc.add_client(cid, lis["https"], [send(rng.choice([rng.randbytes(50), b"\x16\x03\x01\xff\xff" + rng.randbytes(100), b"\x16\x03\x03\x00\x00", b"GET / HTTP/1.0\r\n\r\n"]), on_fail="continue")] + end, start_ms=t)
            a.pop("tls", None)
        elif kind in ("socks", "socksauth"):
            msg = hostile_socks(rng, oip, oport)
            sc.add_client(cid, lis[kind], [send(msg, on_fail="continue")] + end, start_ms=t)
        elif kind == "rev":
            sc.add_client(cid, lis["rev"], [send(rng.randbytes(rng.choice([0, 1, 500])), on_fail="continue")] + end, start_ms=t)
        elif kind in ("up-http", "up-socks", "up-quic"):
            port = {"up-http": 7001, "up-socks": 7002, "up-quic": 7003}[kind]
            li = lis[rng.choice(["http", "socks"])]
            udp = rng.random() < 0.3 and li["kind"] == "http"
            hs, proto = sc.client_handshake(li, "10.9.9.9", port, variant="5p" if li["kind"] == "socks" else None, udp=udp)
            sc.add_client(cid, li, [dict(o, on_fail="continue", timeout_ms=6000) for o in hs] + [op("recv_eof", timeout_ms=7000, on_fail="continue")], start_ms=t)
        elif kind == "tiny-dgram":
            hs, proto = sc.client_handshake(lis["http"], "10.9.9.9", 7004, udp=True)
            frames = b"".join(rc.rpfm_frame(0, "10.9.9.9", 7004, rng.randbytes(rng.choice([0, 1, 40, 1000]))) for _ in range(rng.randint(1, 3)))
            sc.add_client(cid, lis["http"], [dict(o, on_fail="continue", timeout_ms=6000) for o in hs] + [send(frames, on_fail="continue"), op("recv_eof", timeout_ms=7000, on_fail="continue")], start_ms=t)
        elif kind == "accept-error":
            # accept(2) on a listener fails once: a client that reset before it was accepted (ECONNABORTED), descriptor or
            # buffer exhaustion (EMFILE, ENFILE, ENOBUFS, ENOMEM), a signal (EINTR): the listener must keep serving
            lk = rng.choice(["http", "https", "socks", "socksauth", "rev"])
            sc.faults.append({"at_ms": t, "kind": "accept_error", "port": lis[lk]["port"], "errno": rng.choice([103, 103, 24, 23, 105, 12, 4, 71])})
        elif kind == "sudp":
            ops = [send(rc.socks5_greeting([0]) + rc.socks5_request(3, "0.0.0.0", 0)), op("recv_n", n=2, label="method", on_fail="continue", timeout_ms=4000),
                   op("recv_socks5_reply", label="reply", on_fail="continue", timeout_ms=4000), op("set", flag="assoc-" + cid), op("recv_eof", timeout_ms=7000, on_fail="continue")]
            a = sc.add_client(cid, lis["socks"], ops, start_ms=t)
            dops = [op("wait", flag="assoc-" + cid, timeout_ms=5000)]
            for _ in range(rng.randint(1, 6)):
                good = rc.socks5_udp_wrap(rng.choice([oip, "name.sim", "fd00::1"]), oport + 1, rng.randbytes(rng.choice([0, 1, 40])))
                d = rng.choice([b"", b"\0", b"\0\0\0", b"\0\0\0\x01", b"\0\0\0\x03\xff", b"\0\0\0\x04" + b"\1" * 10, b"\0\0\0\x09abc", mutate(rng, good), good[:rng.randint(0, len(good))], b"\0\0\0\x03\x04\xff\xfe\xfd\xfc\0\x50"])
                dops += [op("send", to="socks5reply:" + cid, hex=d.hex()), op("sleep", ms=rng.choice([0, 5]))]
            if rng.random() < 0.2:
                # a long run of malformed datagrams with nothing valid in between (whatever skips them must not build up state per datagram)
                junk = rng.choice([b"", b"\0", b"\0\0\0", b"\0\0\0\x09"])
                dops += [op("send", to="socks5reply:" + cid, hex=junk.hex()) for _ in range(rng.choice([1500, 6000, 12000]))]
            dops.append(op("sleep", ms=500))
            sc.actors.append({"kind": "udp", "id": "u" + cid, "bind": "%s:7400" % a["src"], "start_ms": t, "ops": dops})
        elif kind == "revudp":
            dops = []
            for _ in range(rng.randint(1, 5)):
                dops += [op("send", to=lis["revudp"]["addr"], hex=rng.randbytes(rng.choice([0, 1, 3, 100, 9000])).hex()), op("sleep", ms=rng.choice([0, 3]))]
            dops.append(op("sleep", ms=300))
            sc.actors.append({"kind": "udp", "id": cid, "bind": "%s:7500" % sc.client_ip(), "start_ms": t, "ops": dops})
        elif kind == "quic-dgram":
            qops = []
            for _ in range(rng.randint(1, 8)):
                d = rng.choice([b"", b"\0", b"\0\1", b"\0\1\2", struct.pack(">HBB", rng.randrange(65536), rng.choice([0, 1, 2, 127, 128, 255]), rng.choice([0, 1, 126, 127, 200, 255])) + rng.randbytes(rng.choice([0, 5, 300])),
                                struct.pack(">HBB", 7, 1, 0) + rng.choice([b"RPFM", b"RPFM\0\0\0\1\xff\xff\xff\xff", rc.rpfm_frame(1, "a", 1, b"x"), mutate(rng, rc.rpfm_frame(0, "1.2.3.4", 5, b"yy")), hostile_rpfm(rng)]),
                                struct.pack(">HBB", rng.randrange(65536), 1, 0) + hostile_rpfm(rng)])
                qops.append(op("send_datagram", hex=d.hex()))
            qops.append(op("sleep", ms=300))
            sc.actors.append({"kind": "quic_client", "id": cid, "bind": "%s:%d" % (sc.client_ip(), 5600 + k), "dst": lis["quic"]["addr"], "start_ms": t,
                              "tls": {"sni": "proxy.sim", "ca": pki("ca1.crt")}, "ops": qops})
        elif kind == "quic-stream":
            msg = hostile_http(rng, oaddr)
            sc.actors.append({"kind": "quic_client", "id": cid, "bind": "%s:%d" % (sc.client_ip(), 5600 + k), "dst": lis["quic"]["addr"], "start_ms": t,
                              "tls": {"sni": "proxy.sim", "ca": pki("ca1.crt")}, "ops": [op("open_bi", ops=[send(msg, on_fail="continue")] + [o for o in end if o["op"] != "reset"])]})
        hostile.append({"cid": cid, "kind": kind})
        t += rng.choice([0, 1, 20, 300])
    # canaries: one in the middle, one per listener at the end
    canaries = []

    def canary(cid, lk, at):
        li = lis[lk]
        seed = rng.getrandbits(60) | 1
        creds = ("alice", "s3cret") if lk == "socksauth" else None
        hs, proto = sc.client_handshake(li, oip, oport, variant="5p" if li["kind"] == "socks" else None, creds=creds)
        ops = [dict(o, timeout_ms=9000) for o in hs] + [op("par", w=[send(tag_header(seed, 100, 100)), op("send", fill=[seed, 100]), op("shutdown")],
                                                           r=[op("expect", fill=[seed ^ TAG_XOR, 100], timeout_ms=9000, label="s2c"), op("recv_eof", timeout_ms=9000, label="eof")])]
        sc.add_client(cid, li, ops, start_ms=at)
        canaries.append({"cid": cid if lk != "quic" else cid + "/s0", "lk": lk, "proto": proto, "at": at})

    canary("mid", rng.choice(["http", "socks"]), 50 + rng.randint(0, max(1, t - 50)))
    t_end = t + 1500
    for n, lk in enumerate(["http", "https", "socks", "socksauth", "rev"] + (["quic"] if use_quic else [])):
        canary("end-" + lk, lk, t_end + 10 * n)
    sc.meta = {"cls": "h%d/%s" % (nh, "quic" if use_quic else "tcp"), "cfgkey": "%s/%s" % (cname, "-".join(h["kind"] for h in hostile)), "hostile": hostile, "canaries": canaries, "keep_ops": True}
    sc.max_ms = t_end + 30000
    return sc.plan(want_events=False)


def oracle(plan, out):
    R = G.Result(out)
    meta = plan["meta"]
    V = []
    kinds = sorted(set(h["kind"] for h in meta["hostile"]))

    def v(clause, sig, text):
        V.append(Violation(ID, clause, "C05/%s/%s" % (clause, sig), text))

    if out["hung"]:
        v("hang", "-", "the process made no progress for %.0fs of wall time with hostile peers %s" % (out["wall"], kinds))
        return V
    for line in out.get("panic_lines", []):
        loc = line.split(" at ", 1)[1].split(" : ")[0] if " at " in line else "?"
        if "/verif/" in loc and "/verif/sim/facade" not in loc:
            continue
        where = loc.replace(__import__("vlib.core", fromlist=["REPO"]).REPO + "/", "").replace("/repo/", "").rsplit(":", 1)[0]
        v("panic", where, "panic (the shipped binary aborts here): %s ; hostile peers: %s" % (line[:300], kinds))
    if not R.ok:
        if not V:
            v("died", "-", "the proxy process ended (exit %s) under hostile input %s: %s" % (out["exit"], kinds, (out["stderr"] or "")[-300:]))
        return V
    present = set(a["id"] for a in plan["actors"])
    for c in meta["canaries"]:
        cid = c["cid"]
        if cid.split("/")[0] not in present:
            continue
        ok = c["proto"] == "reverse" or reply_ok(c["proto"], R.op_by_label(cid, "reply"))
        e = R.op_by_label(cid, "s2c")
        x = R.op_by_label(cid, "eof")
        if not ok or e is None or e["res"] != "ok" or x is None or x["res"] != "eof@0":
            rep = R.op_by_label(cid, "reply")
            v("canary-not-served", c["lk"], "canary %s on %s (started %.3fs) was not served while/after hostile peers %s were active: connect=%s reply=%s s2c=%s" % (
                cid, c["lk"], c["at"] / 1e3, kinds, (R.connect(cid.split("/")[0]) or {}).get("connect"), rep and rep["res"], e and e["res"]))
    return V


def probes(plan, out):
    meta = plan["meta"]
    c = (out.get("result") or {}).get("counters", {})
    return {"nontrivial": bool(meta["hostile"]) and (c.get("tcp_established", 0) > len(meta["canaries"]) or True), "hostile_peers": len(meta["hostile"]),
            "hostile_upstreams": sum(1 for h in meta["hostile"] if h["kind"].startswith("up-")), "quic": any("quic" in h["kind"] for h in meta["hostile"]),
            "udp_garbage": sum(1 for h in meta["hostile"] if h["kind"] in ("sudp", "revudp", "quic-dgram"))}
