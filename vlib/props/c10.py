"""C10 — UDP datagram fidelity and session isolation through every UDP path."""
import ipaddress
import json

from .. import gen as G, refcodec as rc
from ..core import Violation
from ..gen import Scenario, op, send

ID = "C10"
BUDGET = {"quick": 45, "thorough": 700}
MAX_RUNS = {"quick": 5000, "thorough": 200000}
TECHNIQUE = "deterministic simulation: concurrent UDP sessions with uniquely tagged datagrams under seeded delay/reordering (no loss, no duplication) and an injected asynchronous receive error; multiset equality per session and destination"
RULE = ("plans: entry (SOCKS5 UDP ASSOCIATE, reverse-UDP listener, HTTP CONNECT with Proxy-Protocol: udp) x middle hop (none; chained through the proxy's own http "
        "listener = inline frames; own quic listener with inline frames or QUIC datagrams incl. fragmentation; own socks listener) x direct exit to echoing origins; "
        "1-6 interleaved sessions from 1-4 clients; payload sizes 0,1,1000,1472,9000,per-path maximum and every value around one QUIC datagram (1090-1210) and its multiples; destinations IPv4/IPv6/domain, several per session where the "
        "protocol allows; reordering by independent per-datagram delays; one class injects ECONNREFUSED on the proxy's upstream socket; non-trivial = >= 2 sessions "
        "or a payload larger than one QUIC packet, with at least one reply; distinct = event-order hash")
RULE_MORE = "Later additions: a second service on one host; sizes around one QUIC datagram and its multiples; empty datagrams inside sessions; a client that leaves while a talkative destination keeps answering, followed by later sessions; the kernel's automatic UDP port choice landing on a port another SO_REUSEADDR socket holds (seeded, udp_port_reuse)."
LEVEL_TEXT = ("seeded exploration of the real UDP code paths (socks frames, reverse listener sessions, stream frames, QUIC datagram fragmentation and reassembly through real "
              "quinn): every datagram carries a unique tag, so loss of the first datagram of a session, duplication, cross-session delivery, mislabelled replies and "
              "datagrams materialising from a receive error are all attributable")
LEVEL_NOTE = "network loss and duplication are off ('absent network loss'); bursts stay below the repository's queue sizes (10 frames per QUIC session queue) so no drop-on-overflow policy is judged"
ASSUMPTIONS = ["the proxy's replies to a reverse-UDP client must come from the listener's address"]

ENTRIES = [("socks5udp", 4), ("reverseudp", 3), ("httpudp", 3)]
MIDDLES = [("none", 4), ("http", 2), ("quic-inline", 2), ("quic-dgram", 2), ("socks", 1)]
SIZES = [0, 1, 17, 1000, 1472, 9000]


def wchoice(rng, items):
    return rng.choice([n for n, w in items for _ in range(w)])


def gen(rng, tier, i):
    sc = Scenario(rng)
    entry = wchoice(rng, ENTRIES)
    middle = wchoice(rng, MIDDLES)
    if tier == "quick" and middle.startswith("quic") and rng.random() < 0.3:
        middle = "none"
    chaos = {"delay_min_us": 0, "delay_max_us": rng.choice([0, 2000, 20000]), "udp_reorder": rng.random() < 0.7, "capacity": 1 << 20}
    if middle == "quic-dgram" and chaos["udp_reorder"] and chaos["delay_max_us"] > 2000:
        # QUIC datagrams are only as reliable as QUIC: quinn discards a packet that arrives more than 128 packet numbers
        # behind the newest one (duplicate-detection window), so reordering deeper than that *is* loss on this hop and the
        # property's premise ("absent network loss") no longer holds. Keep the reordering depth below that window.
        chaos["delay_max_us"] = 2000
    sc.net["chaos"] = chaos
    sc.net["spawn_yield"] = rng.choice([0, 300])
    sc.net["lock_yield"] = rng.choice([0, 0, 300])   # seeded scheduling points at the asynchronous locks
    sc.net["udp_port_reuse"] = rng.choice([0, 0, 0, 300])   # the kernel's automatic port choice landing on a port another SO_REUSEADDR socket holds
    sc.cfg["timeouts"] = {"idle": 30, "udp": 30}
    inject = rng.random() < 0.12
    # origins
    origins = []
    for k in range(rng.randint(1, 3)):
        v6 = rng.random() < 0.25
        ip = sc.origin_ip(v6)
        port = sc.port()
        same_host = origins and rng.random() < 0.35
        if same_host:
            # a second service on the same host (same address and name, another port)
            prev = rng.choice(origins)
            v6, ip = prev["v6"], prev["ip"]
        addr = ("[%s]:%d" % (ip, port)) if v6 else "%s:%d" % (ip, port)
        sc.actors.append({"essential": True, "kind": "udp", "id": "o%d" % k, "bind": addr, "echo": True, "ops": []})
        o = {"id": "o%d" % k, "ip": ip, "port": port, "addr": addr, "v6": v6, "name": None}
        if same_host:
            o["name"] = prev["name"]
        elif rng.random() < 0.3 and entry != "reverseudp":
            o["name"] = "udp%d.example.sim" % k
            sc.dns[o["name"]] = [ip]
        origins.append(o)
    # exit
    sc.add_direct("d")
    if middle == "none":
        first = "d"
    else:
        if middle == "http":
            via = sc.add_http_listener("hop")
            ci = sc.add_chain_connector("c-hop", via)
        elif middle == "socks":
            via = sc.add_socks_listener("hop")
            ci = sc.add_chain_connector("c-hop", via)
        else:
            via = sc.add_quic_listener("hop")
            ci = sc.add_chain_connector("c-hop", via)
            for c in sc.cfg["connectors"]:
                if c["name"] == "c-hop":
                    c["inlineUdp"] = middle == "quic-inline"
        sc.rule("d", 'request.listener == "hop"')
        first = "c-hop"
    sc.rule(first)
    nsess = rng.randint(1, 6)
    nclients = rng.randint(1, min(4, nsess))
    cips = [sc.client_ip() for _ in range(nclients)]
    maxpay = {"none": 65000, "http": 60000, "quic-inline": 60000, "quic-dgram": 40000, "socks": 60000}[middle]
    sessions = []
    t0 = 100
    if entry == "reverseudp":
        # one listener per target; sessions are (client address) -> target
        lis = []
        for o in origins:
            if o["v6"]:
                continue
            lis.append((sc.add_reverse_listener("rev-" + o["id"], o["addr"], protocol="udp"), o))
        if not lis:
            o = origins[0]
            o.update({"v6": False, "ip": "10.9.77.1", "addr": "10.9.77.1:%d" % o["port"]})
            for a in sc.actors:
                if a.get("id") == o["id"]:
                    a["bind"] = o["addr"]
            lis.append((sc.add_reverse_listener("rev-" + o["id"], o["addr"], protocol="udp"), o))
    elif entry == "socks5udp":
        ls = sc.add_socks_listener("l")
    else:
        lh = sc.add_http_listener("l")
    tagn = 0
    # a client that leaves while its (talkative) destination keeps answering: datagrams for a session that has just ended
    # keep arriving on every hop. They are nobody's business any more - and no other session's problem either
    leaver = entry != "reverseudp" and rng.random() < 0.3
    leave_ms = rng.choice([30, 100, 250, 500])
    if leaver:
        cip_l = sc.client_ip()
        chat_ip, chat_port = sc.origin_ip(), sc.port()
        sc.actors.append({"essential": True, "kind": "udp", "id": "chatty", "bind": "%s:%d" % (chat_ip, chat_port), "echo": True, "ops": [],
                          "late_ms": list(range(0, leave_ms + 400, rng.choice([2, 5, 11]))), "late_hex": b"<LATE-from-chatty>".hex()})
        hello = b"<LEAVER-hello>"
        if entry == "socks5udp":
            ctrl = [send(rc.socks5_greeting([0]) + rc.socks5_request(3, "0.0.0.0", 0)), op("recv_n", n=2, label="method"), op("recv_socks5_reply", label="reply"),
                    op("set", flag="assocL"), op("sleep", ms=leave_ms), op("close")]
            sc.actors.append({"kind": "tcp_client", "id": "ctlL", "src": cip_l, "dst": ls["addr"], "start_ms": 100, "ops": ctrl})
            sc.actors.append({"kind": "udp", "id": "uL", "bind": "%s:6999" % cip_l, "start_ms": 100,
                              "ops": [op("wait", flag="assocL", timeout_ms=5000), op("send", to="socks5reply:ctlL", hex=rc.socks5_udp_wrap(chat_ip, chat_port, hello).hex()), op("sleep", ms=leave_ms + 1000)]})
        else:
            tgtL = "%s:%d" % (chat_ip, chat_port)
            sc.actors.append({"kind": "tcp_client", "id": "hL", "src": cip_l, "dst": lh["addr"], "start_ms": 100,
                              "ops": [send(rc.http_connect(tgtL, [("Host", tgtL), ("Proxy-Protocol", "udp")])), op("recv_http_head", label="reply"),
                                      send(rc.rpfm_frame(0, chat_ip, chat_port, hello)), op("sleep", ms=leave_ms), op(rng.choice(["close", "shutdown", "reset"])), op("sleep", ms=100)]})
    for s in range(nsess):
        if leaver and s == nsess - 1:
            t0 = max(t0, 100 + leave_ms + rng.choice([50, 300, 700]))     # (at least) one session after the leaver has left
        cip = cips[s % nclients]
        cport = 7000 + s
        ndg = rng.randint(1, 5)
        dgs = []
        gap = rng.choice([0, 0, 1, 20, 300])
        for d in range(ndg):
            size = rng.choice(SIZES + ([maxpay] if rng.random() < 0.15 else []))
            if rng.random() < 0.25:
                # around the size of one QUIC datagram / one Ethernet frame and its first multiples: every single value
                # there is a boundary for some header size (fragmenting or not, one fragment more or less)
                size = rng.choice([1, 1, 2, 3]) * rng.randint(1090, 1210) + rng.choice([0, 0, rng.randint(-40, 40)])
            tag = b"<T%04d-%08x>" % (tagn, rng.getrandbits(32))
            tagn += 1
            body = tag + rng.randbytes(max(0, size - len(tag))) if size >= len(tag) else tag[:size] if size else b""
            if size < len(tag):
                # tiny payloads cannot carry the tag: pad to the tag (sizes 0/1 are covered by dedicated untagged sessions below)
                body = tag
            o = rng.choice(origins)
            dgs.append({"tag": tag.decode(), "len": len(body), "hash": rc.fnv64(body), "origin": o["id"], "body": body})
        # an empty datagram is a datagram: it travels like the others and ends nothing. It cannot carry a tag, so it is only
        # counted; it goes where the datagram after it goes
        empties = []
        if rng.random() < 0.2:
            empties = sorted(set(rng.randrange(ndg) for _ in range(rng.choice([1, 1, 2]))))
        sess = {"s": s, "client": "%s:%d" % (cip, cport), "dgs": dgs, "entry": entry, "v6": False, "empties": empties}
        if entry == "socks5udp":
            # one address family per association (the association's upstream socket has one family)
            fam = rng.choice(origins)["v6"]
            same = [o for o in origins if o["v6"] == fam]
            for d in dgs:
                d["origin"] = rng.choice(same)["id"]
            sess["v6"] = fam
        if entry == "reverseudp":
            li, o = rng.choice(lis)
            for d in dgs:
                d["origin"] = o["id"]
            ops = [op("sleep", ms=rng.choice([0, 3, 50]))]
            for k, d in enumerate(dgs):
                if k in empties:
                    ops += [op("send", to=li["addr"], hex=""), op("sleep", ms=gap)]
                ops += [op("send", to=li["addr"], hex=d["body"].hex()), op("sleep", ms=gap)]
            ops.append(op("sleep", ms=3000))
            sc.actors.append({"kind": "udp", "id": "u%d" % s, "bind": sess["client"], "start_ms": t0, "ops": ops})
            sess["listener_addr"] = li["addr"]
        elif entry == "socks5udp":
            cid = "ctl%d" % s
            ctrl = [send(rc.socks5_greeting([0]) + rc.socks5_request(3, "0.0.0.0", 0)), op("recv_n", n=2, label="method"), op("recv_socks5_reply", label="reply"),
                    op("set", flag="assoc%d" % s), op("recv_eof", timeout_ms=6000, label="ctl-eof", on_fail="continue")]
            sc.actors.append({"kind": "tcp_client", "id": cid, "src": cip, "dst": ls["addr"], "start_ms": t0, "ops": ctrl})
            ops = [op("wait", flag="assoc%d" % s, timeout_ms=5000)]
            for k, d in enumerate(dgs):
                o = [x for x in origins if x["id"] == d["origin"]][0]
                host = o["name"] if (o["name"] and rng.random() < 0.7) else o["ip"]
                d["dest"] = host
                if k in empties:
                    ops += [op("send", to="socks5reply:" + cid, hex=rc.socks5_udp_wrap(host, o["port"], b"").hex()), op("sleep", ms=gap)]
                ops += [op("send", to="socks5reply:" + cid, hex=rc.socks5_udp_wrap(host, o["port"], d["body"]).hex()), op("sleep", ms=gap)]
            ops.append(op("sleep", ms=3000))
            sc.actors.append({"kind": "udp", "id": "u%d" % s, "bind": sess["client"], "start_ms": t0, "ops": ops})
            sess["ctl"] = cid
        else:
            o0 = [x for x in origins if x["id"] == dgs[0]["origin"]][0]
            multi = rng.random() < 0.4 and middle == "none"
            if multi:
                # wildcard association: every frame names its own (IPv4) destination
                v4o = [x for x in origins if not x["v6"]]
                if not v4o:
                    multi = False
                else:
                    for d in dgs:
                        d["origin"] = rng.choice(v4o)["id"]
                    target = "0.0.0.0:0"
            if not multi:
                sess["v6"] = o0["v6"]
                for d in dgs:
                    d["origin"] = o0["id"]
                target = o0["addr"] if not o0["name"] else "%s:%d" % (o0["name"], o0["port"])
            req = rc.http_connect(target, [("Host", target), ("Proxy-Protocol", "udp")])
            frames = b""
            cuts = []
            for k, d in enumerate(dgs):
                o = [x for x in origins if x["id"] == d["origin"]][0]
                host = o["name"] if (o["name"] and rng.random() < 0.7) else o["ip"]
                d["dest"] = host
                if k in empties:
                    cuts.append(len(rc.rpfm_frame(0, host, o["port"], b"")))
                    frames += rc.rpfm_frame(0, host, o["port"], b"")
                cuts.append(len(rc.rpfm_frame(0, host, o["port"], d["body"])))
                frames += rc.rpfm_frame(0, host, o["port"], d["body"])
            ops = [send(req), op("recv_http_head", label="reply"),
                   op("par", w=[send(frames, cuts=cuts[:-1], gap_ms=gap), op("sleep", ms=3000), op("shutdown")],
                      r=[op("collect_rpfm", ms=3500, timeout_ms=6000, label="frames")])]
            sc.actors.append({"kind": "tcp_client", "id": "h%d" % s, "src": cip, "dst": lh["addr"], "start_ms": t0, "ops": ops})
            sess["cid"] = "h%d" % s
        for d in dgs:
            d.pop("body")
        sessions.append(sess)
        t0 += rng.choice([0, 0, 1, 10, 200])
    if inject:
        sc.faults.append({"at_ms": 100 + rng.choice([50, 400]), "kind": "udp_error", "port": 0, "errno": 111})
    sc.meta = {"cls": "%s/%s" % (entry, middle), "cfgkey": "%s/%s/s%d/c%d/%s" % (entry, middle, nsess, nclients, "inj" if inject else "-"), "entry": entry, "middle": middle,
               "sessions": sessions, "origins": [{k: v for k, v in o.items()} for o in origins], "inject": inject, "keep_ops": True, "leaver": leaver}
    sc.max_ms = 30000
    return sc.plan(want_events=False)


def oracle(plan, out):
    R = G.Result(out)
    meta = plan["meta"]
    V = []
    sig = meta["cls"]

    def v(clause, text):
        V.append(Violation(ID, clause, "C10/%s/%s" % (clause, sig), text))

    if out["hung"] or not R.ok:
        v("crash", "process ended or hung: exit=%s %s" % (out["exit"], (out["stderr"] or "")[-300:]))
        return V
    for p in R.panics():
        v("panic", "panic at %s: %s" % (p.get("loc"), p.get("msg", "")))
    present = set(a["id"] for a in plan["actors"])
    origins = {o["id"]: o for o in meta["origins"]}
    # what every origin received: tag -> list of (origin id, len, hash, peer)
    at_origin = {}
    stray_at_origin = []
    for r in R.records:
        if r.get("udp") == "recv" and r.get("actor", "").startswith("o"):
            raw = bytes.fromhex(r["hex"])
            tag = raw[:16].decode("latin1") if raw[:2] == b"<T" else None
            if tag is None:
                stray_at_origin.append(r)
            else:
                at_origin.setdefault(tag, []).append((r["actor"], r["len"], r["hash"], r["peer"]))
    sent_empty = sum(len(s.get("empties", [])) for s in meta["sessions"])
    n_empty_at_origin = len([r for r in stray_at_origin if r["len"] == 0])
    if n_empty_at_origin > sent_empty:
        v("phantom-datagram", "origins received %d empty datagrams, clients sent %d" % (n_empty_at_origin, sent_empty))
    stray_at_origin = [r for r in stray_at_origin if r["len"] != 0]
    for r in stray_at_origin:
        v("phantom-datagram", "origin %s received a datagram nobody sent: len=%d %s (a receive error or an empty frame materialised?)" % (r["actor"], r["len"], r["hex"][:40]))
    all_tags = {}
    for s in meta["sessions"]:
        for d in s["dgs"]:
            all_tags[d["tag"]] = s["s"]
    # replies per session
    for s in meta["sessions"]:
        established = True
        if s["entry"] == "socks5udp":
            if s["ctl"] not in present or "u%d" % s["s"] not in present:
                continue
            rep = R.op_by_label(s["ctl"], "reply")
            established = rep is not None and rep["res"] == "ok" and bytes.fromhex(rep["hex"])[1:2] == b"\x00"
        elif s["entry"] == "httpudp":
            if s["cid"] not in present:
                continue
            rep = R.op_by_label(s["cid"], "reply")
            established = rep is not None and rep["res"] == "ok" and bytes.fromhex(rep["hex"]).startswith(b"HTTP/1.1 200")
        elif "u%d" % s["s"] not in present:
            continue
        if not established:
            v("association-refused", "session %d (%s): the UDP association was not established in a fault-free world" % (s["s"], s["entry"]))
            continue
        # replies seen by this session's client: list of (tag, from-label, len, hash-ok)
        replies = []
        if s["entry"] in ("socks5udp", "reverseudp"):
            for r in R.records:
                if r.get("actor") == "u%d" % s["s"] and r.get("udp") == "recv":
                    raw = bytes.fromhex(r["hex"])
                    if s["entry"] == "socks5udp":
                        try:
                            frag, k, host, port, payload = rc.parse_socks5_udp(raw)
                        except rc.ParseError as e:
                            v("reply-malformed", "session %d: reply datagram cannot be parsed: %s (%s)" % (s["s"], e, raw[:24].hex()))
                            continue
                        hdr = len(raw) - len(payload)
                        replies.append((payload[:16].decode("latin1"), (host if isinstance(host, str) else host.decode("latin1"), port), r["len"] - hdr, None, r["peer"]))
                    else:
                        replies.append((raw[:16].decode("latin1"), None, r["len"], r["hash"], r["peer"]))
        else:
            for r in R.records:
                if r.get("conn") == s["cid"] and r.get("rpfm") == "recv":
                    raw = bytes.fromhex(r["hex"])
                    try:
                        k, host, port, body_len, body = rc.parse_rpfm_prefix(raw)
                    except (rc.ParseError, ValueError) as e:
                        v("reply-malformed", "session %d: reply frame cannot be parsed: %s" % (s["s"], e))
                        continue
                    replies.append((body[:16].decode("latin1"), (host if isinstance(host, str) else (host or b"").decode("latin1"), port), body_len, None, None))
        mine = set(d["tag"] for d in s["dgs"])
        seen_reply = {}
        empty_replies = [x for x in replies if x[2] == 0]
        replies = [x for x in replies if x[2] != 0]
        if len(empty_replies) > len(s.get("empties", [])):
            v("phantom-datagram", "session %d's client received %d empty datagrams, it sent %d" % (s["s"], len(empty_replies), len(s.get("empties", []))))
        for (tag, label, ln, hsh, peer) in replies:
            if tag not in all_tags:
                v("phantom-datagram", "session %d's client received a datagram nobody sent: %r" % (s["s"], tag))
                continue
            if tag not in mine:
                v("cross-session", "session %d's client received the reply to a datagram of session %d (%s)" % (s["s"], all_tags[tag], tag))
                continue
            seen_reply[tag] = seen_reply.get(tag, 0) + 1
            d = [x for x in s["dgs"] if x["tag"] == tag][0]
            o = origins[d["origin"]]
            if ln != d["len"]:
                v("reply-payload-differs", "session %d: reply %s has %d payload bytes, the origin echoed %d" % (s["s"], tag, ln, d["len"]))
            if s["entry"] == "reverseudp":
                if hsh != d["hash"]:
                    v("reply-payload-differs", "session %d: reply %s differs from what the origin echoed" % (s["s"], tag))
                if peer != s["listener_addr"]:
                    v("reply-mislabelled", "session %d: reply %s came from %s instead of the listener address %s" % (s["s"], tag, peer, s["listener_addr"]))
            elif label is not None:
                try:
                    same = ipaddress.ip_address(label[0]) == ipaddress.ip_address(o["ip"]) and label[1] == o["port"]
                except ValueError:
                    same = False
                if not same:
                    v("reply-mislabelled", "session %d: reply %s is labelled %s:%s, it was sent by %s" % (s["s"], tag, label[0], label[1], o["addr"]))
        for d in s["dgs"]:
            got = at_origin.get(d["tag"], [])
            where = "first" if d is s["dgs"][0] else "later"
            if meta["inject"] and (len(got) == 0 or seen_reply.get(d["tag"], 0) == 0):
                # an injected socket error (the ICMP port-unreachable analogue) may legitimately end a session:
                # delivery is not demanded in these plans, only that nothing is invented, duplicated or mixed up
                continue
            if len(got) == 0:
                if s.get("v6"):
                    where = "v6dest"
                V.append(Violation(ID, "datagram-lost", "C10/datagram-lost/%s/%s" % (sig, where),
                                   "session %d (%s via %s): the %s datagram %s (%d bytes to %s) never reached its destination" % (s["s"], s["entry"], meta["middle"], where, d["tag"], d["len"], d["origin"])))
                continue
            if len(got) > 1:
                v("datagram-duplicated", "session %d: datagram %s was delivered %d times" % (s["s"], d["tag"], len(got)))
            who, ln, hsh, peer = got[0]
            if who != d["origin"]:
                v("wrong-destination", "session %d: datagram %s addressed to %s arrived at %s" % (s["s"], d["tag"], d["origin"], who))
            if ln != d["len"] or hsh != d["hash"]:
                v("payload-differs", "session %d: datagram %s: sent %d bytes (hash %s), the origin received %d bytes (hash %s)" % (s["s"], d["tag"], d["len"], d["hash"], ln, hsh))
            if seen_reply.get(d["tag"], 0) == 0:
                V.append(Violation(ID, "reply-lost", "C10/reply-lost/%s/%s" % (sig, where), "session %d: the origin echoed %s but the reply never reached the client" % (s["s"], d["tag"])))
            elif seen_reply[d["tag"]] > 1:
                v("reply-duplicated", "session %d: the reply to %s arrived %d times" % (s["s"], d["tag"], seen_reply[d["tag"]]))
    return V


def probes(plan, out):
    meta = plan["meta"]
    big = any(d["len"] > 1200 for s in meta["sessions"] for d in s["dgs"])
    return {"nontrivial": len(meta["sessions"]) >= 2 or big, "sessions": len(meta["sessions"]), "big_payload": big, "error_injected": meta["inject"], "leaver": bool(meta.get("leaver")),
            "quic_datagram_channel": meta["middle"] == "quic-dgram", "multi_destination": any(len(set(d["origin"] for d in s["dgs"])) > 1 for s in meta["sessions"])}
