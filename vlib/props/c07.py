"""C07 — configured peer authentication is enforced on every path."""
import json

from .. import gen as G, refcodec as rc
from ..core import Violation
from ..gen import Scenario, op, send, pki
from .c01 import reply_ok

ID = "C07"
BUDGET = {"quick": 45, "thorough": 700}
MAX_RUNS = {"quick": 8000, "thorough": 300000}
TECHNIQUE = "deterministic simulation: credential histories against the verdict cache on the virtual clock, external auth command stubbed with a time-varying verdict table, TLS certificate matrix on both hops; 'unauthenticated peer never reaches an upstream' observed at the origin"
RULE = ("plans (a) SOCKS credentials: auth.required x user list x external command (verdict table that may change over time, latency) x cache.timeout in {0,2,10} x "
        "2-7 attempts (method offers in every subset/order of {0,1,2,0x80}; valid/wrong/empty/255-byte/non-UTF-8 credentials; SOCKS4 ids; right-then-wrong, "
        "wrong-then-right, same user other password, reuse just before/after expiry and after a verdict change, concurrent first use); (b) TLS client certificates: "
        "listener http/socks/quic x policy none/optional/required x presented none/valid/foreign-CA; (c) upstream verification: connector http/socks/quic x insecure x "
        "server certificate valid/foreign-CA/wrong-name; non-trivial = at least one attempt must be refused and one accepted; distinct = event-order hash")
RULE_MORE = 'Later additions: boundary-shifted and placeholder credentials; helper killed by a signal; a lenient companion connector to the same upstream; part d: a host that never authenticated sends datagrams to the relay port of an authenticated UDP association (before/after the owner, with/without enforceUdpClient).'
LEVEL_TEXT = ("seeded exploration of the real listeners, AuthData cache, rustls acceptors/connectors and quinn endpoints: the only observable that counts is whether the "
              "origin was ever contacted on behalf of a peer that the reference model (accepted set + expiring verdict cache keyed by the exact pair) rejects")
LEVEL_NOTE = "the external program is a stub (verdict table); consulting it more often than necessary is not a violation; TLS1.3 client-side handshake results are never used"
ASSUMPTIONS = ["cache expiry slack 1.5 virtual s (eviction is a sleeping task)"]

METHOD_SETS = [[0], [2], [0, 2], [2, 0], [1, 2], [0x80, 0], [1], [0, 1, 2, 0x80], [2, 2], []]


def gen_a(rng, sc, tier):
    required = rng.random() < 0.8
    users = [("alice", "s3cret")] if rng.random() < 0.7 else []
    if rng.random() < 0.2:
        users.append(("v4user", ""))
    use_cmd = rng.random() < 0.7
    timeout = rng.choice([0, 2, 10])
    auth = {"required": required, "users": [{"username": u, "password": p} for u, p in users], "cache": {"timeout": timeout}}
    verdicts = []  # (user, pass, from_ms, until_ms)
    if use_cmd:
        auth["cmd"] = ["authprog", "--user", "#USER#", "--pass", "#PASS#"]
        lat = rng.choice([0, 0, 30, 400])
        change_at = rng.choice([0, 3000, 9000])   # 0 = never changes
        for (u, p) in [("bob", "builder"), ("carol", "x" * 255), ("twin", "twin")]:
            if rng.random() < 0.8:
                verdicts.append((u, p, 0, change_at))
                sc.cmds.append({"argv": ["authprog", "--user", u, "--pass", p], "exit": 0, "latency_ms": lat, "from_ms": 0, "until_ms": change_at})
        if change_at and rng.random() < 0.5:
            verdicts.append(("dave", "late", change_at, 0))
            sc.cmds.append({"argv": ["authprog", "--user", "dave", "--pass", "late"], "exit": 0, "latency_ms": lat, "from_ms": change_at, "until_ms": 0})
        # every pair the program does not accept: it exits with some non-zero status, or dies from a signal (negative value)
        sc.extra["cmd_default_exit"] = rng.choice([1, 1, 1, 2, 255, 126, -11, -9, -6])
        for (u, p) in [("mallory", "s3cret"), ("alice", "wrong"), ("bob", "Builder")]:
            if rng.random() < 0.3:
                sc.cmds.append({"argv": ["authprog", "--user", u, "--pass", p], "exit": rng.choice([-11, -9, 255, 2]), "latency_ms": lat, "from_ms": 0, "until_ms": 0})
        for c in sc.cmds:
            pass
    li = sc.add_socks_listener("l", auth=auth)
    sc.add_direct("d")
    sc.rule("d")
    oip = sc.origin_ip()
    attempts = []
    n = rng.randint(2, 7)
    pool = [("alice", "s3cret"), ("alice", "wrong"), ("bob", "builder"), ("bob", "Builder"), ("carol", "x" * 255), ("carol", "x" * 254), ("", ""), ("mallory", "s3cret"),
            ("dave", "late"), ("v4user", ""), ("alice", ""), (b"al\xffice", b"s3cret"), ("alice", b"s3cr\xe9t"),
            # the placeholders of the command template as credentials: they are data, not template text
            ("#PASS#", "twin"), ("#PASS#", "builder"), ("twin", "#USER#"), ("#USER#", "#PASS#"), ("bob", "#PASS#")]
    base = rng.choice(pool)
    if use_cmd and rng.random() < 0.4:
        base = ("bob", "builder")     # a pair only the external program knows: its verdict goes through the cache
    t = 100
    for k in range(n):
        r = rng.random()
        if r < 0.35:
            pair = base
        elif r < 0.55 and isinstance(base[0], str):
            pair = (base[0], rng.choice(["wrong", "", base[1] + "x"]) if isinstance(base[1], str) else "wrong")
        elif r < 0.8 and isinstance(base[0], str) and isinstance(base[1], str):
            # the same characters with the user/password boundary somewhere else (a verdict cache or a command line that
            # joins the two must not confuse them), also around the usual separators
            u, p = base
            pair = rng.choice([(u + p[:1], p[1:]), (u[:-1], u[-1:] + p), (u + p, ""), ("", u + p), (u + ":" + p, ""), (u, p + ":"), (u + " ", p), (u, " " + p),
                               (u + ":", p), (u, ":" + p), (u.upper(), p), (p, u)])
        else:
            pair = rng.choice(pool)
        t += rng.choice([0, 0, 1, 500, 1900, 2100, 3000, 9900, 10100]) if timeout else rng.choice([0, 1, 500, 3500])
        ver = rng.choice([5, 5, 5, 4])
        methods = rng.choice(METHOD_SETS)
        port = 4000 + k
        sc.add_origin("%s:%d" % (oip, port), default_ops=[op("sleep", ms=50), op("shutdown"), op("recv_eof", timeout_ms=10000)], oid="o%d" % k)
        if ver == 4:
            uid = pair[0] if isinstance(pair[0], bytes) else pair[0].encode()
            if b"\0" in uid:
                uid = b"x"
            ops = [send(rc.socks4_request(1, oip, port, uid)), op("recv_n", n=8, label="reply", on_fail="continue", timeout_ms=8000), op("recv_eof", timeout_ms=8000, label="rest", on_fail="continue")]
            attempts.append({"k": k, "ver": 4, "user": uid.hex(), "pass": b"".hex(), "methods": None, "port": port, "at": t})
        else:
            u = pair[0] if isinstance(pair[0], bytes) else pair[0].encode()
            p = pair[1] if isinstance(pair[1], bytes) else pair[1].encode()
            if len(p) > 255:
                p = p[:255]
            if len(u) > 255:
                u = u[:255]
            msg = rc.socks5_greeting(methods)
            ops = [send(msg), op("recv_n", n=2, label="method", on_fail="continue", timeout_ms=8000)]
            # whatever the server selected, a stubborn client sends its credentials (if it has method 2) and then the request
            if 2 in methods:
                ops += [send(rc.socks5_userpass(u, p), on_fail="continue"), op("recv_n", n=2, label="authstatus", on_fail="continue", timeout_ms=8000)]
            ops += [send(rc.socks5_request(1, oip, port), on_fail="continue"), op("recv_socks5_reply", label="reply", on_fail="continue", timeout_ms=8000),
                    op("recv_eof", timeout_ms=8000, label="rest", on_fail="continue")]
            attempts.append({"k": k, "ver": 5, "user": u.hex(), "pass": p.hex(), "methods": methods, "port": port, "at": t})
        sc.add_client("a%d" % k, li, ops, start_ms=t)
    sc.meta.update({"part": "a", "required": required, "users": [[u, p] for u, p in users], "cmd": use_cmd, "timeout": timeout,
                    "verdicts": [[u, p, f, un] for (u, p, f, un) in verdicts], "attempts": attempts,
                    "cls": "a/req%d/cmd%d/to%d" % (required, use_cmd, timeout), "cfgkey": "a/%d/%d/%d/%s" % (required, use_cmd, timeout, len(attempts))})
    sc.max_ms = t + 30000


def gen_b(rng, sc, tier):
    lk = rng.choice(["http", "socks", "quic"]) if tier == "thorough" or rng.random() < 0.6 else rng.choice(["http", "socks"])
    policy = rng.choice(["none", "optional", "required", "required"])
    presented = rng.choice([None, "client-good", "client-foreign"])
    cp = None if policy == "none" else policy
    if lk == "http":
        li = sc.add_http_listener("l", tls=True, client_policy=cp)
    elif lk == "socks":
        li = sc.add_socks_listener("l", tls=True, client_policy=cp)
    else:
        li = sc.add_quic_listener("l", client_policy=cp)
    sc.add_direct("d")
    sc.rule("d")
    oip, oport = sc.origin_ip(), sc.port()
    sc.add_origin("%s:%d" % (oip, oport), default_ops=[op("sleep", ms=50), op("shutdown"), op("recv_eof", timeout_ms=10000)], oid="origin")
    hs, proto = sc.client_handshake(li, oip, oport, variant="5p" if lk == "socks" else None)
    ops = [dict(o, on_fail="continue", timeout_ms=8000) for o in hs] + [op("recv_eof", timeout_ms=8000, label="rest", on_fail="continue")]
    sc.add_client("c", li, ops, start_ms=20, tls_cert=presented)
    sc.meta.update({"part": "b", "lk": lk, "policy": policy, "presented": presented, "proto": proto,
                    "cls": "b/%s/%s/%s" % (lk, policy, presented), "cfgkey": "b/%s/%s/%s" % (lk, policy, presented)})
    sc.max_ms = 40000


def gen_c(rng, sc, tier):
    ck = rng.choice(["http", "socks", "quic"]) if tier == "thorough" or rng.random() < 0.6 else rng.choice(["http", "socks"])
    insecure = rng.random() < 0.3
    cert = rng.choice(["server-good", "server-foreign", "server-wrongname"])
    ca = rng.choice(["ca1.crt", "ca1.crt", "ca2.crt"])
    tcfg = sc.tls_client(insecure=insecure, ca=ca)
    if ck == "http":
        ci = sc.add_http_connector("u", tls=True, tls_cfg=tcfg, server_cert=cert)
        ci["server"]["default_ops"] = sc.upstream_handshake(ci) + [op("sleep", ms=50), op("shutdown"), op("recv_eof", timeout_ms=10000)]
    elif ck == "socks":
        ci = sc.add_socks_connector("u", version=5, tls=True, tls_cfg=tcfg, server_cert=cert)
        ci["server"]["default_ops"] = sc.upstream_handshake(ci) + [op("sleep", ms=50), op("shutdown"), op("recv_eof", timeout_ms=10000)]
    else:
        ci = sc.add_quic_connector("u", insecure=insecure, server_cert=cert)
        # by name, so that the certificate name can be checked
        sc.dns["upstream.sim"] = [ci["ip"]]
        for c in sc.cfg["connectors"]:
            if c["name"] == "u":
                c["server"] = "upstream.sim"
                c["tls"] = tcfg
        ci["server"]["default_ops"] = sc.upstream_handshake(ci) + [op("sleep", ms=50), op("shutdown"), op("recv_eof", timeout_ms=10000)]
    li = sc.add_http_listener("l")
    companion = ck in ("http", "socks") and rng.random() < 0.4
    t_main = 20
    if companion:
        # a second connector to the very same upstream that does not verify it, used first: what it learned about the
        # upstream (a TLS session, a cached verdict) must not vouch for the upstream on the strict connector
        import copy
        c2 = copy.deepcopy([c for c in sc.cfg["connectors"] if c["name"] == "u"][0])
        c2["name"] = "u2"
        c2["tls"] = sc.tls_client(insecure=True)
        sc.cfg["connectors"].append(c2)
        l2 = sc.add_http_listener("l2")
        sc.rule("u2", 'request.listener == "l2"')
        for k in range(rng.randint(1, 2)):
            hs2, _ = sc.client_handshake(l2, "10.9.9.8", 80)
            sc.add_client("c2-%d" % k, l2, [dict(o, on_fail="continue", timeout_ms=15000) for o in hs2] + [op("recv_eof", timeout_ms=15000, label="rest", on_fail="continue")], start_ms=20 + 300 * k)
        t_main = 1500
    sc.rule("u")
    hs, proto = sc.client_handshake(li, "10.9.9.9", 80)
    sc.add_client("c", li, [dict(o, on_fail="continue", timeout_ms=15000) for o in hs] + [op("recv_eof", timeout_ms=15000, label="rest", on_fail="continue")], start_ms=t_main)
    sc.meta.update({"part": "c", "ck": ck, "insecure": insecure, "cert": cert, "ca": ca, "proto": proto, "companion": companion,
                    "cls": "c/%s/ins%d/%s/%s%s" % (ck, insecure, cert, ca, "/companion" if companion else ""), "cfgkey": "c/%s/%d/%s/%s" % (ck, insecure, cert, ca)})
    sc.max_ms = 60000


def gen_d(rng, sc, tier):
    """the UDP relay of an authenticated SOCKS5 association: datagrams of a peer that never authenticated are not forwarded"""
    enforce = rng.random() < 0.3
    auth = {"required": True, "users": [{"username": "alice", "password": "s3cret"}]}
    li = sc.add_socks_listener("l", auth=auth)
    if enforce:
        sc.cfg["listeners"][-1]["enforceUdpClient"] = True
    sc.add_direct("d")
    sc.rule("d")
    oip, oport = sc.origin_ip(), sc.port()
    sc.actors.append({"essential": True, "kind": "udp", "id": "uorigin", "bind": "%s:%d" % (oip, oport), "echo": True, "ops": []})
    owner_ip, stranger_ip = sc.client_ip(), sc.client_ip()
    # the owner declares where its datagrams will come from: nothing (zeros, the usual case) or its real address
    declared = rng.choice(["zero", "zero", "real"])
    decl = ("0.0.0.0", 0) if declared == "zero" else (owner_ip, 7001)
    ctrl = [send(rc.socks5_greeting([2])), op("recv_n", n=2, label="method"), send(rc.socks5_userpass(b"alice", b"s3cret")), op("recv_n", n=2, label="authstatus"),
            send(rc.socks5_request(3, decl[0], decl[1])), op("recv_socks5_reply", label="reply"), op("set", flag="assoc"), op("recv_eof", timeout_ms=6000, label="ctl-eof", on_fail="continue")]
    sc.actors.append({"kind": "tcp_client", "id": "ctl", "src": owner_ip, "dst": li["addr"], "start_ms": 50, "ops": ctrl})
    ctl_index = len(sc.actors) - 1
    own_first = rng.random() < 0.4
    t_owner = rng.choice([0, 300]) if own_first else rng.choice([400, 1500])
    t_stranger = rng.choice([500, 900]) if own_first else rng.choice([0, 1, 100])
    mine, theirs = b"<OWNER-%08x>" % rng.getrandbits(32), b"<STRANGER-%08x>" % rng.getrandbits(32)
    sc.actors.append({"kind": "udp", "id": "uowner", "bind": "%s:7001" % owner_ip, "start_ms": 50,
                      "ops": [op("wait", flag="assoc", timeout_ms=5000), op("sleep", ms=t_owner), op("send", to="socks5reply:ctl", hex=rc.socks5_udp_wrap(oip, oport, mine).hex()), op("sleep", ms=3000)]})
    sc.actors.append({"kind": "udp", "id": "ustranger", "bind": "%s:%d" % (stranger_ip, rng.choice([7001, 7777])), "start_ms": 50,
                      "ops": [op("wait", flag="assoc", timeout_ms=5000), op("sleep", ms=t_stranger)] +
                             [x for _ in range(rng.choice([1, 3])) for x in (op("send", to="socks5reply:ctl", hex=rc.socks5_udp_wrap(oip, oport, theirs).hex()), op("sleep", ms=50))] + [op("sleep", ms=3000)]})
    # round 9: in a third of the plans the control connection itself presents wrong credentials and asks for the association all the same (derived from a
    # value already drawn, so the other plans of a seed stay what they were); nothing of either sender may then reach the destination
    badcred = int(mine[7:15], 16) % 3 == 0
    if badcred:
        wrong = [(b"alice", b"wrong"), (b"mallory", b"s3cret"), (b"alice", b"")][int(mine[7:15], 16) % 7 % 3]
        c = dict(on_fail="continue", timeout_ms=3000)
        sc.actors[ctl_index]["ops"] = [send(rc.socks5_greeting([2]), on_fail="continue"), op("recv_n", n=2, label="method", **c), send(rc.socks5_userpass(*wrong), on_fail="continue"),
                                       op("recv_n", n=2, label="authstatus", **c), send(rc.socks5_request(3, decl[0], decl[1]), on_fail="continue"),
                                       op("recv_socks5_reply", label="reply", **c), op("set", flag="assoc"), op("recv_eof", timeout_ms=6000, label="ctl-eof", on_fail="continue")]
        for a in sc.actors[ctl_index + 1:]:
            for o in a["ops"]:
                if o.get("op") == "send":
                    o["on_fail"] = "continue"
    sc.meta.update({"badcred": badcred})
    sc.meta.update({"part": "d", "enforce": enforce, "declared": declared, "own_first": own_first, "mine": mine.hex(), "theirs": theirs.hex(),
                    "cls": "d/enf%d/%s/%s" % (enforce, declared, "owner-first" if own_first else "stranger-first"), "cfgkey": "d/%d/%s/%d/%d/%d" % (enforce, declared, own_first, t_owner, t_stranger)})
    sc.cfg["timeouts"] = {"idle": 10, "udp": 10}
    sc.max_ms = 12000


def gen(rng, tier, i):
    sc = Scenario(rng)
    cname, chaos = G.pick_chaos(rng, weights=(("none", 2), ("mild", 3)))
    if chaos:
        chaos["capacity"] = 1 << 20
    sc.net["chaos"] = chaos
    sc.net["spawn_yield"] = rng.choice([0, 300, 700])
    sc.net["lock_yield"] = rng.choice([0, 0, 300])   # seeded scheduling points at the asynchronous locks
    part = rng.choice(["a", "a", "a", "a", "a", "a", "b", "b", "c", "c", "d"])
    sc.meta = {"keep_ops": True}
    {"a": gen_a, "b": gen_b, "c": gen_c, "d": gen_d}[part](rng, sc, tier)
    return sc.plan(want_events=True)


def oracle(plan, out):
    R = G.Result(out)
    meta = plan["meta"]
    V = []

    def v(clause, sig, text):
        V.append(Violation(ID, clause, "C07/%s/%s" % (clause, sig), text))

    if out["hung"] or not R.ok:
        v("crash", meta["part"], "process ended or hung: exit=%s %s" % (out["exit"], (out["stderr"] or "")[-400:]))
        return V
    for p in R.panics():
        v("panic", meta["part"], "panic at %s: %s" % (p.get("loc"), p.get("msg", "")))
    present = set(a["id"] for a in plan["actors"])
    if meta["part"] == "a":
        # consultations of the external program: (t_us, user, pass)
        cons = []
        for e in R.events:
            if e[2] == "cmd_exec":
                try:
                    argv = json.loads(e[5].replace("\\x", "\\\\x")) if False else eval(e[5], {"__builtins__": {}})
                except Exception:
                    continue
                if len(argv) == 5:
                    cons.append((e[1], argv[2], argv[4]))
        users = set((u, p) for u, p in meta["users"])

        def verdict_at(u, p, t_ms):
            for (vu, vp, f, un) in meta["verdicts"]:
                if vu == u and vp == p and t_ms >= f and (un == 0 or t_ms < un):
                    return True
            return False

        for a in meta["attempts"]:
            cid = "a%d" % a["k"]
            if cid not in present or "o%d" % a["k"] not in present:
                continue
            routed = len(R.accepts("o%d" % a["k"])) > 0
            if not routed:
                continue
            ub, pb = bytes.fromhex(a["user"]), bytes.fromhex(a["pass"])
            desc = "attempt %d (socks%d user=%r pass=%r methods=%s at %.3fs)" % (a["k"], a["ver"], ub[:20], pb[:20], a["methods"], a["at"] / 1e3)
            if not meta["required"]:
                continue
            # which credentials did the proxy actually get to see
            if a["ver"] == 5:
                if 2 not in (a["methods"] or []):
                    v("routed-without-credentials", "a", "%s offered no username/password method, authentication is required, yet the request was routed" % desc)
                    continue
            try:
                u, p = ub.decode("utf-8"), pb.decode("utf-8")
            except UnicodeDecodeError:
                v("routed-with-undecodable-credentials", "a", "%s: credentials are not valid UTF-8 and cannot equal any accepted pair, yet the request was routed" % desc)
                continue
            if (u, p) in users:
                continue
            if not meta["cmd"]:
                v("routed-with-wrong-credentials", "a", "%s is not in the user list and no external command is configured, yet the request was routed" % desc)
                continue
            # must be backed by a consultation for exactly this pair, with a positive verdict, recent enough
            conn = R.connect(cid)
            t_start = conn["t0"] if conn else a["at"] * 1000
            ok = False
            for (tc, cu, cp) in cons:
                if cu == u and cp == p and verdict_at(u, p, tc / 1000.0) and tc >= t_start - (meta["timeout"] * 1_000_000 + 1_500_000 if meta["timeout"] else 0):
                    ok = True
            if not ok:
                same_user = [(tc, cp) for (tc, cu, cp) in cons if cu == u]
                v("routed-on-foreign-or-stale-verdict", "a", "%s was routed, but the external program never accepted exactly this pair within cache.timeout=%ds (consultations for this user: %s)" % (
                    desc, meta["timeout"], [(round(tc / 1e6, 3), cp[:12]) for tc, cp in same_user][:6]))
        return V
    if meta["part"] == "d":
        got = [bytes.fromhex(r["hex"]) for r in R.records if r.get("actor") == "uorigin" and r.get("udp") == "recv"]
        theirs = bytes.fromhex(meta["theirs"])
        if meta.get("badcred"):
            if got:
                v("association-without-credentials", "d", "the control connection presented wrong credentials and asked for UDP ASSOCIATE; %d datagrams were forwarded to the destination (%s)" % (
                    len(got), got[0][:30].hex()))
            return V
        if any(theirs in g for g in got):
            v("forwarded-for-unauthenticated-peer", meta["cls"], "a peer that never authenticated (another host than the association's owner) sent a datagram to the relay port of an "
              "authenticated UDP association%s: it was forwarded to the destination" % (" (enforceUdpClient on, the owner declared %s)" % meta["declared"] if meta["enforce"] else ""))
        back = [bytes.fromhex(r["hex"]) for r in R.records if r.get("actor") == "ustranger" and r.get("udp") == "recv"]
        if back:
            v("forwarded-for-unauthenticated-peer", meta["cls"] + "/reply", "the unauthenticated peer received %d datagrams from the relay (%s)" % (len(back), back[0][:30].hex()))
        return V
    if meta["part"] == "b":
        routed = len(R.accepts("origin")) > 0
        valid = meta["presented"] == "client-good"
        if meta["policy"] == "required" and not valid and routed:
            v("routed-without-client-certificate", "b/%s" % meta["lk"], "listener %s requires a client certificate from ca1; the client presented %s and its request was routed" % (meta["lk"], meta["presented"]))
        if meta["policy"] == "optional" and meta["presented"] == "client-foreign" and routed:
            v("routed-with-foreign-certificate", "b/%s" % meta["lk"], "listener %s (client certificates optional, CA ca1): a certificate from another CA was presented and the request was routed" % meta["lk"])
        return V
    # part c
    told = reply_ok("http", R.op_by_label("c", "reply"))
    used = False
    for r in R.records:
        if r.get("label") == "upreq" and r.get("res") == "ok":
            # (with a companion connector the upstream also sees the lenient connector's requests: only ours counts)
            try:
                m_, target_, _, _, _ = rc.parse_http_request(bytes.fromhex(r["hex"])) if meta["ck"] == "http" else (None, None, None, None, None)
            except rc.ParseError:
                target_ = None
            if meta["ck"] != "http":
                used = used or not meta.get("companion") or bytes.fromhex(r["hex"]).find(bytes([10, 9, 9, 9])) >= 0
            else:
                used = used or (target_ or b"").startswith(b"10.9.9.9:")
    valid = (meta["cert"] == "server-good" and meta["ca"] == "ca1.crt") or (meta["cert"] == "server-foreign" and meta["ca"] == "ca2.crt")
    if not meta["insecure"] and not valid and (told or used):
        v("tunnel-through-unverified-upstream", "c/%s" % meta["ck"], "connector %s without 'insecure' (CA %s): upstream presented %s, yet %s" % (
            meta["ck"], meta["ca"], meta["cert"], "the client was told 'established'" if told else "the upstream received the request"))
    return V


def probes(plan, out):
    meta = plan["meta"]
    R = G.Result(out)
    if meta["part"] == "a":
        routed = sum(1 for a in meta["attempts"] if len(R.accepts("o%d" % a["k"])) > 0) if R.ok else 0
        return {"nontrivial": 0 < routed < len(meta["attempts"]), "attempts_routed": routed, "attempts_refused": len(meta["attempts"]) - routed,
                "cmd_consultations": (out.get("result") or {}).get("counters", {}).get("cmd_exec", 0), "part_a": True}
    if meta["part"] == "b":
        routed = len(R.accepts("origin")) > 0 if R.ok else False
        return {"nontrivial": True, "part_b": True, "b_routed": routed}
    if meta["part"] == "d":
        return {"nontrivial": True, "part_d_udp_stranger": True}
    told = reply_ok("http", R.op_by_label("c", "reply")) if R.ok else False
    return {"nontrivial": True, "part_c": True, "c_established": told}
