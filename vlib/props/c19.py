"""C19 — service resumes after an upstream outage without restarting the proxy."""
import json

from .. import gen as G, refcodec as rc
from ..core import Violation
from ..gen import Scenario, op, send, tag_header, TAG_XOR, pki
from .c01 import reply_ok

ID = "C19"
BUDGET = {"quick": 45, "thorough": 700}
MAX_RUNS = {"quick": 5000, "thorough": 200000}
TECHNIQUE = "deterministic simulation with fault injection: upstream kill / restart / black-hole placed at idle, connect, handshake and mid-transfer, repeated; bounded-recovery oracle after the last heal"
RULE = ("plans: upstream kind (origin behind direct, fake HTTP proxy, fake SOCKS5 proxy, fake QUIC h11c server, load-balanced pair) x outage kind (kill: listener gone and "
        "connections reset; restart: kill then re-bind with fresh state; black-hole: packets vanish then heal) x placement (proxy idle, right after a tunnel reached "
        "Connected, during connect/handshake, mid-transfer) x 1-3 repetitions, with healthy tunnels to a second upstream throughout; probes retry every 10 virtual s; "
        "non-trivial = an outage overlapped an open tunnel or an in-flight connect; distinct = event-order hash")
RULE_MORE = 'Later additions: request storms during outages; one-second retry cadence; an origin that goes silent behind a shared upstream; blocking sleeps on the runtime thread are accounted and judged as affecting the healthy upstream.'
LEVEL_TEXT = ("seeded exploration of the real connectors incl. the QUIC connector's shared long-lived connection: after the last heal some probe must succeed within 5 attempts "
              "and 120 virtual s and every later probe at once; tunnels open across a kill must end on both sides within 3 s; tunnels on the healthy upstream must "
              "satisfy byte-exact delivery throughout; the proxy process is never restarted (there is only one)")
LEVEL_NOTE = "liveness is judged only after the last fault has been healed; QUIC 'kill' is modelled as the endpoint vanishing without a CONNECTION_CLOSE and a new endpoint with fresh state on the same address"
ASSUMPTIONS = ["idle timeout is configured to 20 s in these plans so that black-holed tunnels have a bounded life"]

KINDS = [("direct", 3), ("http", 3), ("socks", 2), ("quic", 3), ("lb", 1)]
K_ATTEMPTS = 5
RECOVERY_US = 120_000_000
G_US = 3_000_000


def wchoice(rng, items):
    return rng.choice([n for n, w in items for _ in range(w)])


def gen_behind(rng, tier, i):
    """the outage is one origin *behind* an upstream proxy that stays up: requests for that origin get no answer for a
    long time (the upstream is still trying), while tunnels to other origins through the same upstream - for the quic
    connector: on the same long-lived connection - must not notice, and requests for the origin succeed again afterwards"""
    sc = Scenario(rng)
    sc.net["chaos"] = {}
    sc.net["spawn_yield"] = rng.choice([0, 300])
    sc.net["lock_yield"] = rng.choice([0, 0, 300])   # seeded scheduling points at the asynchronous locks
    sc.cfg["timeouts"] = {"idle": 600}
    kind = rng.choice(["quic", "quic", "http", "socks"])
    li = sc.add_http_listener("l")
    if kind == "quic":
        ci = sc.add_quic_connector("u")
    elif kind == "http":
        ci = sc.add_http_connector("u")
    else:
        ci = sc.add_socks_connector("u", version=5)
    sc.rule("u")
    hs_up = sc.upstream_handshake(ci)
    serve = hs_up + [op("serve_tagged", timeout_ms=120000)]
    # the request of the silent stream is read, then nothing: the origin behind the upstream swallows the connection attempt
    silent = [o for o in hs_up if o["op"].startswith("recv")][:1] + [op("sleep", ms=rng.choice([15000, 40000, 90000])), op("close")]
    nsil = rng.randint(1, 3)
    # accept order at the upstream: long tunnel first, then the silent ones, then probes
    scripts = [serve] + [silent] * nsil + [serve] * 8
    key = "streams" if kind == "quic" else "conns"
    ci["server"][key] = scripts
    ci["server"]["default_ops"] = serve
    tunnels = []

    def tunnel(cid, at, c2s=2000, s2c=2000, slow_ms=0, dead=False):
        seed = rng.getrandbits(60) | 1
        hs, proto = sc.client_handshake(li, "10.9.9.9", 80 if not dead else 81)
        hs = [dict(o, timeout_ms=200000, on_fail="continue") for o in hs]
        if dead:
            sc.add_client(cid, li, hs + [op("recv_eof", timeout_ms=200000, on_fail="continue", label="eof")], start_ms=at)
            return
        if slow_ms:
            w = [send(tag_header(seed, c2s, s2c))] + [op("send", fill=[seed, c2s], chunk=max(1, c2s // 60), gap_ms=slow_ms, timeout_ms=600000, label="c2s")] + [op("shutdown")]
        else:
            w = [send(tag_header(seed, c2s, s2c)), op("send", fill=[seed, c2s], timeout_ms=30000, label="c2s"), op("shutdown")]
        r = [op("expect", fill=[seed ^ TAG_XOR, s2c], timeout_ms=600000, label="s2c"), op("recv_eof", timeout_ms=600000, label="eof")]
        sc.add_client(cid, li, hs + [op("par", w=w, r=r)], start_ms=at)
        tunnels.append({"cid": cid, "at": at, "healthy": True, "seed": seed, "slow": slow_ms, "c2s": c2s, "s2c": s2c})

    tunnel("long", 200, c2s=6000, s2c=6000, slow_ms=1000)          # lives for about a minute
    for k in range(nsil):
        tunnel("dead%d" % k, 1500 + 700 * k, dead=True)
    for j in range(6):
        tunnel("probe%d" % j, 5000 + 12000 * j)
    sc.api_call("hist", "GET", "/api/history", start_ms=130000)
    sc.meta = {"cls": "%s/origin-behind-upstream/x%d" % (kind, nsil), "cfgkey": "%s/behind/%d" % (kind, nsil), "kind": kind, "outage": "origin-behind-upstream", "windows": [],
               "tunnels": tunnels, "probes": [], "last_up": None, "keep_ops": True, "no_generic_fill_shrink": True}
    sc.max_ms = 200000
    return sc.plan(want_events=False)


def gen(rng, tier, i):
    if rng.random() < 0.06:
        return gen_behind(rng, tier, i)
    sc = Scenario(rng)
    cname, chaos = G.pick_chaos(rng, weights=(("none", 2), ("mild", 3)))
    if chaos:
        chaos["capacity"] = 1 << 20
    sc.net["chaos"] = chaos
    sc.net["spawn_yield"] = rng.choice([0, 300])
    sc.net["lock_yield"] = rng.choice([0, 0, 300])   # seeded scheduling points at the asynchronous locks
    sc.cfg["timeouts"] = {"idle": 20}
    kind = wchoice(rng, KINDS)
    if tier == "quick" and kind == "quic" and rng.random() < 0.3:
        kind = "http"
    outage = rng.choice(["kill", "restart", "restart", "blackhole"])
    if kind == "quic" and outage == "restart" and rng.random() < 0.5:
        outage = "restart-graceful"   # the old endpoint says goodbye (CONNECTION_CLOSE) before the new one appears
    li = sc.add_http_listener("l")
    lh = sc.add_http_listener("l-healthy")
    # healthy path
    sc.add_direct("healthy")
    hip, hport = sc.origin_ip(), sc.port()
    sc.add_origin("%s:%d" % (hip, hport), default_ops=[op("serve_tagged", timeout_ms=60000)], oid="horigin")
    sc.rule("healthy", 'request.listener == "l-healthy"')
    oip, oport = sc.origin_ip(), sc.port()
    serve = [op("serve_tagged", timeout_ms=60000)]
    # the upstream under test: generations g0 (initial), g1.. (after restarts)
    reps = rng.randint(1, 3)
    t = 2000
    faults = []
    windows = []   # (down_ms, up_ms or None)
    gens = 1
    for r in range(reps):
        down = t + rng.choice([0, 3, 50, 1000, 7000])
        if outage == "kill" and r == reps - 1:
            up = None
        else:
            up = down + rng.choice([10, 500, 5000, 40000])
        windows.append((down, up))
        t = (up if up is not None else down) + rng.choice([2000, 15000])
    last_up = windows[-1][1]
    target_ip = None

    def server_actor(g, start_flag, stop_flag):
        if kind in ("direct", "lb"):
            a = {"essential": True, "kind": "tcp_server", "id": "up-g%d" % g, "bind": "%s:%d" % (oip, oport), "conns": [], "default_ops": serve}
        elif kind == "http":
            a = {"essential": True, "kind": "tcp_server", "id": "up-g%d" % g, "bind": "%s:%d" % (uip, uport), "conns": [], "default_ops": sc.upstream_handshake({"kind": "http"}) + serve}
        elif kind == "socks":
            a = {"essential": True, "kind": "tcp_server", "id": "up-g%d" % g, "bind": "%s:%d" % (uip, uport), "conns": [], "default_ops": sc.upstream_handshake({"kind": "socks", "version": 5}) + serve}
        else:
            a = {"essential": True, "kind": "quic_server", "id": "up-g%d" % g, "bind": "%s:%d" % (uip, uport), "streams": [], "default_ops": sc.upstream_handshake({"kind": "quic"}) + serve,
                 "tls": {"cert": pki("server-good.crt"), "key": pki("server-good.key")}}
        if start_flag:
            a["start_flag"] = start_flag
        if stop_flag:
            a["stop_flag"] = stop_flag
        return a

    uip, uport = sc.upstream_ip(), sc.port()
    if kind == "direct":
        sc.add_direct("u")
        target_ip = oip
    elif kind == "lb":
        m0 = sc.add_direct("m0")
        m1 = sc.add_direct("m1")
        sc.add_loadbalance("u", [m0, m1], rng.choice([None, "random"]))
        target_ip = oip
    elif kind == "http":
        sc.cfg["connectors"].append({"name": "u", "type": "http", "server": uip, "port": uport})
        target_ip = uip
    elif kind == "socks":
        sc.cfg["connectors"].append({"name": "u", "type": "socks", "server": uip, "port": uport, "version": 5})
        target_ip = uip
    else:
        sc.cfg["connectors"].append({"name": "u", "type": "quic", "server": uip, "port": uport, "tls": sc.tls_client(insecure=True), "bind": "0.0.0.0:0"})
        target_ip = uip
    sc.rule("u", 'request.listener == "l"')
    g = 0
    cur_stop = None
    if outage in ("kill", "restart", "restart-graceful"):
        for r, (down, up) in enumerate(windows):
            stop = "down%d" % r
            sc.actors.append(server_actor(g, ("up%d" % (r - 1)) if r > 0 else None, stop))
            sc.faults.append({"at_ms": down, "kind": "set", "flag": stop})
            if kind == "quic" and outage == "restart-graceful":
                pass   # the stopping server actor closes its endpoint properly
            elif kind == "quic":
                # the endpoint vanishes without saying goodbye: drop what it may still send
                sc.faults.append({"at_ms": down, "kind": "stall", "ip": target_ip})
            else:
                sc.faults.append({"at_ms": down, "kind": "reset_host", "ip": target_ip})
            g += 1
            if up is not None:
                if kind == "quic" and outage != "restart-graceful":
                    sc.faults.append({"at_ms": up, "kind": "heal", "ip": target_ip})
                sc.faults.append({"at_ms": up, "kind": "set", "flag": "up%d" % r})
        if windows[-1][1] is not None:
            sc.actors.append(server_actor(g, "up%d" % (len(windows) - 1), None))
    else:
        sc.actors.append(server_actor(0, None, None))
        for r, (down, up) in enumerate(windows):
            sc.faults.append({"at_ms": down, "kind": "stall", "ip": target_ip})
            sc.faults.append({"at_ms": up, "kind": "heal", "ip": target_ip})
    tunnels = []

    def tunnel(cid, at, healthy, c2s=2000, s2c=2000, slow_ms=0, expect="?"):
        seed = rng.getrandbits(60) | 1
        lis = lh if healthy else li
        host, port = (hip, hport) if healthy else (oip, oport)
        hs, proto = sc.client_handshake(lis, host, port)
        hs = [dict(o, timeout_ms=30000) for o in hs]
        if slow_ms:
            # a long-lived tunnel: trickle one chunk every slow_ms; the origin never ends its direction by itself (flag 1)
            w = [send(tag_header(seed, c2s, s2c, 1))] + [op("send", fill=[seed, c2s], chunk=max(1, c2s // 40), gap_ms=slow_ms, timeout_ms=600000, label="c2s")] + [op("shutdown")]
        else:
            w = [send(tag_header(seed, c2s, s2c)), op("send", fill=[seed, c2s], timeout_ms=30000, label="c2s"), op("shutdown")]
        r = [op("expect", fill=[seed ^ TAG_XOR, s2c], timeout_ms=600000 if slow_ms else 30000, label="s2c"), op("recv_eof", timeout_ms=600000 if slow_ms else 30000, label="eof")]
        sc.add_client(cid, lis, hs + [op("par", w=w, r=r)], start_ms=at)
        tunnels.append({"cid": cid, "at": at, "healthy": healthy, "seed": seed, "slow": slow_ms, "c2s": c2s, "s2c": s2c})

    # before the first outage: warm up (also creates the cached QUIC connection)
    tunnel("warm", 200, False)
    # tunnels placed around each outage
    for r, (down, up) in enumerate(windows):
        place = rng.choice(["idle", "connected", "connecting", "mid"])
        if place == "connected":
            tunnel("x%d" % r, max(250, down - rng.choice([1, 5, 30])), False)
        elif place == "connecting":
            tunnel("x%d" % r, down + rng.choice([0, 1, 2]), False)
        elif place == "mid":
            tunnel("x%d" % r, max(250, down - 1500), False, c2s=4000, s2c=10, slow_ms=100)
        tunnels[-1]["place"] = place
        # healthy traffic during the outage
        tunnel("h%d" % r, down + rng.choice([0, 5, 200]), True)
        if up is not None and rng.random() < 0.5:
            tunnel("during%d" % r, down + max(1, (up - down) // 2), False)
        if up is not None and rng.random() < 0.3:
            # many requests keep arriving while the upstream is away (failure counters, leaked permits, growing back-off ...)
            nst = rng.choice([8, 12, 20, 40])
            for q in range(nst):
                tunnel("storm%d_%d" % (r, q), down + 1 + (up - down - 2) * q // nst, False)
    # probes after the last heal
    probes = []
    if last_up is not None:
        # clients retry at their own pace: every 10 s, or once a second (a back-off that is fed by the retries themselves never ends)
        probe_gap = rng.choice([10000, 10000, 1000])
        for j in range(13 if probe_gap == 10000 else 60):
            at = last_up + 1000 + probe_gap * j
            tunnel("probe%d" % j, at, False)
            probes.append("probe%d" % j)
        last_probe = at
        if kind == "quic":
            # the known slow recovery of the QUIC connector (a connection attempt that has been pending since the first request of
            # an outage is retried with exponential back-off) is bounded by the age of that attempt, which can span several outages:
            # keep probing for that long, so that "slow" and "never" can be told apart
            j = len(probes)
            at = last_probe + 10000
            while at <= last_up + (last_up - windows[0][0]) + 20000:
                tunnel("probe%d" % j, at, False)
                probes.append("probe%d" % j)
                last_probe = at
                j += 1
                at += 10000
        tunnel("hfinal", last_up + 5000, True)
    end = (last_up if last_up is not None else windows[-1][0]) + 140000
    if last_up is not None:
        end = max(end, last_probe + 30000)
    sc.api_call("hist", "GET", "/api/history", start_ms=end)
    sc.meta = {"cls": "%s/%s/x%d" % (kind, outage, reps), "cfgkey": "%s/%s/%s/%s" % (kind, outage, cname, "-".join("%d:%s" % (d, u) for d, u in windows)),
               "kind": kind, "outage": outage, "windows": windows, "tunnels": tunnels, "probes": probes, "last_up": last_up, "keep_ops": True, "no_generic_fill_shrink": True}
    sc.max_ms = end + 40000
    return sc.plan(want_events=False)


def tunnel_ok(R, t):
    cid = t["cid"]
    if not reply_ok("http", R.op_by_label(cid, "reply")):
        return False
    e = R.op_by_label(cid, "s2c")
    x = R.op_by_label(cid, "eof")
    w = R.op_by_label(t["cid"], "c2s")
    # (the client's own stream must have gone out completely as well: a long-lived tunnel that is cut while it trickles)
    return e is not None and e["res"] == "ok" and x is not None and x["res"] == "eof@0" and (w is None or w["res"] == "ok")


def oracle(plan, out):
    R = G.Result(out)
    meta = plan["meta"]
    V = []
    sig = "%s/%s" % (meta["kind"], meta["outage"])

    def v(clause, text):
        V.append(Violation(ID, clause, "C19/%s/%s" % (clause, sig), text))

    if out["hung"] or not R.ok:
        v("crash", "process ended or hung: exit=%s %s" % (out["exit"], (out["stderr"] or "")[-300:]))
        return V
    for p in R.panics():
        v("panic", "panic at %s: %s" % (p.get("loc"), p.get("msg", "")))
    present = set(a["id"] for a in plan["actors"])
    byid = {t["cid"]: t for t in meta["tunnels"]}
    # a sleeping system call on a worker of the runtime stops every task scheduled on it - the tunnels to the healthy
    # upstream among them - for its whole length (the simulator accounts such calls instead of executing them)
    bl = R.res.get("blocked_sleeps") or {}
    if bl.get("max_us", 0) >= 10_000 and any(t["healthy"] for t in meta["tunnels"]):
        v("healthy-upstream-affected", "a runtime worker was put to sleep %d times (%.3f s in all, %.3f s at most) by a blocking sleep during the outage: tunnels to the healthy upstream stand still meanwhile" % (
            bl.get("calls", 0), bl.get("us", 0) / 1e6, bl.get("max_us", 0) / 1e6))
    # healthy traffic is never affected
    for t in meta["tunnels"]:
        if t["healthy"] and t["cid"] in present and not tunnel_ok(R, t):
            rep = R.op_by_label(t["cid"], "reply")
            v("healthy-upstream-affected", "tunnel %s to the healthy upstream (started %.3fs) failed: reply=%s s2c=%s" % (
                t["cid"], t["at"] / 1e3, rep and rep["res"], (R.op_by_label(t["cid"], "s2c") or {}).get("res")))
    # recovery after the last heal
    if meta["last_up"] is not None:
        res = [(p, tunnel_ok(R, byid[p])) for p in meta["probes"] if p in present]
        first_ok = next((k for k, (p, ok) in enumerate(res) if ok), None)
        # requests that were sent to the faulty upstream while it was down (they start a connection attempt)
        down_reqs = [t["at"] for t in meta["tunnels"] if not t["healthy"] and t["cid"] in present and not t["cid"].startswith("probe")
                     and any(d <= t["at"] < u for d, u in meta["windows"] if u is not None)]
        # the bound is a time: the first success must come from a probe started within K_ATTEMPTS * 10 s of the heal
        late = lambda k: byid[res[k][0]]["at"] - meta["last_up"] > K_ATTEMPTS * 10000
        if res and first_ok is not None and late(first_ok) and meta["kind"] == "quic" and down_reqs and \
                byid[res[first_ok][0]]["at"] - meta["last_up"] <= meta["last_up"] - min(down_reqs):
            # recovered, but only after as long as the oldest connection attempt had been pending: the QUIC connector's
            # single attempt (made under the connector's lock) is retransmitted with exponential back-off
            v("slow-recovery-pending-attempt", "upstream healed at %.3fs; probes: %s - the first success came %.0fs after the heal; a request had started a "
              "connection attempt at %.3fs, while the upstream was down" % (meta["last_up"] / 1e3, "".join("+" if ok else "-" for p, ok in res),
                                                                            (byid[res[first_ok][0]]["at"] - meta["last_up"]) / 1e3, min(down_reqs) / 1e3))
        elif res and (first_ok is None or late(first_ok)):
            gap = (byid[res[1][0]]["at"] - byid[res[0][0]]["at"]) / 1e3 if len(res) > 1 else 10
            v("no-recovery", "upstream healed at %.3fs; probes every %g s: %s - no attempt within %d s of the heal succeeded" % (
                meta["last_up"] / 1e3, gap, "".join("+" if ok else "-" for p, ok in res), K_ATTEMPTS * 10))
        elif res:
            bad = [p for p, ok in res[first_ok:] if not ok]
            if bad:
                v("relapse", "after the first successful probe (%s) later probes failed again: %s (pattern %s)" % (res[first_ok][0], bad, "".join("+" if ok else "-" for p, ok in res)))
    # tunnels that were open across a kill end promptly on the client side
    if meta["outage"] in ("kill", "restart", "restart-graceful") and meta["kind"] != "quic":
        for t in meta["tunnels"]:
            if t["healthy"] or t["cid"] not in present or t["cid"].startswith("probe") or not t.get("slow"):
                continue
            cid = t["cid"]
            if not reply_ok("http", R.op_by_label(cid, "reply")):
                continue
            conn = R.connect(cid)
            downs = [d for d, u in meta["windows"] if d * 1000 > conn["t1"]]
            if not downs:
                continue
            down_us = downs[0] * 1000
            end = R.end(cid)
            x = R.op_by_label(cid, "eof")
            s = R.op_by_label(cid, "s2c")
            finished_before = end is not None and end["t"] < down_us
            if finished_before:
                continue
            closed_at = None
            for rec in (s, x):
                if rec is not None and rec["res"] != "ok" and not rec["res"].startswith("timeout") and rec["t1"] >= down_us:
                    closed_at = rec["t1"] if closed_at is None else min(closed_at, rec["t1"])
            if x is not None and x["res"].startswith("eof@") and x["t1"] >= down_us:
                closed_at = x["t1"] if closed_at is None else min(closed_at, x["t1"])
            if closed_at is None:
                v("open-tunnel-not-closed", "tunnel %s was open when the upstream was killed at %.3fs but its client side was never closed (s2c=%s eof=%s)" % (
                    cid, down_us / 1e6, s and s["res"], x and x["res"]))
            elif closed_at > down_us + G_US:
                v("open-tunnel-closed-late", "tunnel %s: upstream killed at %.3fs, client side closed only at %.3fs" % (cid, down_us / 1e6, closed_at / 1e6))
    return V


def probes(plan, out):
    meta = plan["meta"]
    R = G.Result(out)
    overl = any(t.get("place") in ("connected", "connecting", "mid") for t in meta["tunnels"])
    okp = sum(1 for p in meta["probes"] if R.ok and tunnel_ok(R, [t for t in meta["tunnels"] if t["cid"] == p][0]))
    return {"nontrivial": overl, "probes_ok": okp, "probes_total": len(meta["probes"]), "quic": meta["kind"] == "quic", "blackhole": meta["outage"] == "blackhole",
            "repeated_outages": len(meta["windows"]) > 1,
            "request_storm_during_outage": any(t["cid"].startswith("storm") for t in meta["tunnels"])}
