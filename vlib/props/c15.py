"""C15 — rule hot-reload is atomic and all-or-nothing."""
import json

from .. import gen as G, refcodec as rc
from ..core import Violation
from ..gen import Scenario, op, send
from .c01 import reply_ok

ID = "C15"
BUDGET = {"quick": 40, "thorough": 600}
MAX_RUNS = {"quick": 8000, "thorough": 300000}
TECHNIQUE = "deterministic simulation: histories of valid/invalid POST /rules from 1-2 admin clients interleaved with probe requests; single-register linearizability check over rule-list versions"
RULE = ("plans: up to 8 POST /rules (valid lists; invalid ones with a syntax error, a type error or an unknown target at a seeded position; GET-then-POST round trips) "
        "from 1-2 admin clients, interleaved with 2-30 probe requests that start before, during (0-3 ms around the POST) and after; every version is an independent "
        "random rule list so that a decision mixing rules of two lists is almost surely impossible under either; non-trivial = >= 1 successful replacement whose list "
        "decides some probe differently from its predecessor; distinct = event-order hash")
RULE_MORE = 'Later additions: long padded rule lists; volleys of probes in the instant of a POST; scheduling points at the asynchronous locks (lock_yield); GET /rules compared with the list in force after traffic.'
LEVEL_TEXT = ("seeded exploration of the real API handler, set_rules and process_request: invoke/return of every POST and every probe are stamped with the simulator's global "
              "sequence numbers and a brute-force register-linearizability check decides whether each probe was decided entirely by a list that could be in force; "
              "failed replacements must leave GET /rules and all later decisions on the previous list")
LEVEL_NOTE = "task-level interleavings only (single-threaded runtime); trusts the reference evaluator for the tiny filter grammar used (host equality, listener equality, catch-all, deny)"
ASSUMPTIONS = []


def rule_list(rng, classes, upstreams, pad=False):
    """random list; returns (json rules, fn(class, listener)->decision)"""
    rules = []
    if pad:
        # a long run of rules that never match in front: the decision walks far before it decides (and a replacement may
        # arrive while it walks)
        for j in range(rng.choice([0, 150, 300, 400])):
            ptgt = rng.choice(upstreams + ["deny"])
            rules.append(({"target": ptgt, "filter": 'request.target.host == "never%d.sim"' % j}, ("host", "never%d.sim" % j), ptgt))
    for _ in range(rng.randint(1, 4)):
        tgt = rng.choice(upstreams + ["deny"])
        r = rng.random()
        if r < 0.6:
            c = rng.choice(classes)
            rules.append(({"target": tgt, "filter": 'request.target.host == "%s"' % c}, ("host", c), tgt))
        elif r < 0.8:
            l = rng.choice(["l-a", "l-b"])
            rules.append(({"target": tgt, "filter": 'request.listener == "%s"' % l}, ("listener", l), tgt))
        else:
            rules.append(({"target": tgt}, ("all",), tgt))
    if rng.random() < 0.7:
        tgt = rng.choice(upstreams)
        rules.append(({"target": tgt}, ("all",), tgt))
    return rules


def decide(rules, host, listener):
    for (_, cond, tgt) in rules:
        if cond[0] == "all" or (cond[0] == "host" and cond[1] == host) or (cond[0] == "listener" and cond[1] == listener):
            return tgt
    return None


def gen(rng, tier, i):
    sc = Scenario(rng)
    cname, chaos = G.pick_chaos(rng, weights=(("none", 2), ("mild", 3), ("heavy", 1)))
    if chaos:
        chaos["capacity"] = 1 << 20
    sc.net["chaos"] = chaos
    sc.net["spawn_yield"] = rng.choice([0, 300, 700])
    sc.net["lock_yield"] = rng.choice([100, 500, 900])   # seeded scheduling points at the asynchronous locks
    m = rng.randint(2, 4)
    ups = []
    for k in range(m):
        ci = sc.add_http_connector("u%d" % k)
        ci["server"]["default_ops"] = [op("recv_http_head", label="upreq"), send(b"HTTP/1.1 200 OK\r\n\r\n"), op("shutdown"), op("recv_eof", timeout_ms=30000)]
        ups.append("u%d" % k)
    la = sc.add_http_listener("l-a")
    lb = sc.add_http_listener("l-b")
    classes = ["c%d.example.sim" % j for j in range(rng.randint(2, 4))]
    pad = rng.random() < 0.1
    if pad:
        sc.net["chaos"] = {}     # no network delays: the requests and the replacement really meet in one instant
    versions = [rule_list(rng, classes, ups, pad)]
    sc.cfg["rules"] = [r[0] for r in versions[0]]
    nposts = rng.randint(1, 8)
    posts = []
    t = 200
    admins = rng.choice([1, 1, 2])
    for k in range(nposts):
        t += rng.choice([0, 1, 2, 50, 400])
        kind = rng.choice(["valid", "valid", "valid", "syntax", "type", "unknown-target", "roundtrip"])
        if kind == "roundtrip":
            # GET /rules and POST the body back unchanged (done by the harness in two calls 100 ms apart: the POST body is the
            # current expected list rendered exactly like the API renders it, see oracle for the GET comparison)
            posts.append({"k": k, "kind": "get", "cid": "get%d" % k, "at": t})
            sc.api_call("get%d" % k, "GET", "/api/rules", start_ms=t, background=True)
            continue
        lst = rule_list(rng, classes, ups, pad)
        body = [dict(r[0]) for r in lst]
        if kind != "valid":
            pos = rng.randrange(len(body))
            if kind == "syntax":
                body[pos]["filter"] = rng.choice(['request.target.host ==', '(request.listener == "l-a"', 'request..host', '"unterminated'])
            elif kind == "type":
                body[pos]["filter"] = rng.choice(['request.target.host', '1 + 1', 'nosuch.thing == 1', 'request.target.host =~ 5', 'to_integer(5) > 1', '!request.target.host'])
            else:
                body[pos]["target"] = rng.choice(["nosuch", "u99", "", "Deny"])
        cid = "post%d" % k
        sc.api_call(cid, "POST", "/api/rules", body=body, start_ms=t, background=True, src="10.7.0.%d" % (1 + k % admins))
        posts.append({"k": k, "kind": kind, "cid": cid, "at": t, "list": [[r[1], r[2]] for r in lst] if kind == "valid" else None})
    t_end = t + 600
    # probes
    nprobe = rng.randint(2, 30)
    probes = []
    volley_at = rng.choice(posts)["at"] if (pad and posts) else None
    if pad:
        nprobe = max(nprobe, 24)
    for k in range(nprobe):
        r = rng.random()
        if volley_at is not None and k < 20:
            at = volley_at      # a volley of requests in the very instant of a replacement: some of them are in mid-walk
        elif r < 0.6 and posts:
            at = rng.choice(posts)["at"] + rng.choice([-3, -1, 0, 0, 1, 2, 3, 10])
        else:
            at = rng.randint(50, t_end)
        at = max(20, at)
        li = rng.choice([la, lb])
        host = rng.choice(classes)
        port = 3000 + k
        hs, proto = sc.client_handshake(li, host, port)
        sc.add_client("p%d" % k, li, [dict(o, on_fail="continue") for o in hs] + [op("recv_eof", timeout_ms=20000, label="eof")], start_ms=at)
        probes.append({"k": k, "host": host, "listener": li["name"], "port": port, "at": at})
    if volley_at is not None:
        # actors start in list order: let the volley's requests reach the proxy before the replacement that meets them
        moved = [a for a in sc.actors if a.get("id", "").startswith("post") and a.get("start_ms") == volley_at]
        sc.actors = [a for a in sc.actors if a not in moved] + moved
    sc.api_call("final", "GET", "/api/rules", start_ms=t_end + 2000)
    sc.meta = {"cls": "posts%d/probes%d/adm%d" % (nposts, nprobe, admins), "cfgkey": "%s/%s" % (cname, "-".join(p["kind"] for p in posts)),
               "v0": [[r[1], r[2]] for r in versions[0]], "posts": posts, "probes": probes, "keep_ops": True}
    sc.max_ms = t_end + 40000
    return sc.plan(want_events=False)


def norm(rules_json):
    return [(r.get("target"), r.get("filter")) for r in rules_json]


def render(lst):
    out = []
    for cond, tgt in lst:
        cond = tuple(cond)
        if cond[0] == "all":
            out.append((tgt, None))
        elif cond[0] == "host":
            out.append((tgt, 'request.target.host == "%s"' % cond[1]))
        else:
            out.append((tgt, 'request.listener == "%s"' % cond[1]))
    return out


def oracle(plan, out):
    R = G.Result(out)
    meta = plan["meta"]
    V = []

    def v(clause, text):
        V.append(Violation(ID, clause, "C15/%s" % clause, text))

    if out["hung"] or not R.ok:
        v("crash", "process ended or hung: exit=%s %s" % (out["exit"], (out["stderr"] or "")[-300:]))
        return V
    for p in R.panics():
        v("panic", "panic at %s: %s" % (p.get("loc"), p.get("msg", "")))
    present = set(a["id"] for a in plan["actors"])
    # writes: (invoke seq, return seq, list)   -- version 0 is the configuration
    writes = [{"inv": -1, "ret": 0, "list": [(tuple(c), t) for c, t in meta["v0"]], "name": "config"}]
    for p in meta["posts"]:
        if p["cid"] not in present:
            continue
        ops = R.ops(p["cid"])
        if not ops:
            continue
        inv = ops[0]["s0"]
        ret = ops[-1]["s1"]
        h = R.history(p["cid"])
        code = h[0] if h else None
        if p["kind"] == "get":
            continue
        if p["kind"] == "valid":
            if code != 200:
                v("valid-rejected", "POST /rules #%d with a valid list answered %s: %s" % (p["k"], code, h and h[2][:200]))
                # it may or may not have been applied: treat as a possible write
            writes.append({"inv": inv, "ret": ret, "list": [(tuple(c), t) for c, t in p["list"]], "name": "post%d" % p["k"]})
        else:
            if code == 200:
                v("invalid-accepted", "POST /rules #%d (%s) was accepted with 200" % (p["k"], p["kind"]))
    def possible_at(inv, ret):
        """lists that may legally decide an operation spanning [inv, ret]"""
        cands = []
        for w in writes:
            if w["inv"] > ret:
                continue  # written definitely after
            overwritten = any(o is not w and o["inv"] > w["ret"] and o["ret"] < inv for o in writes)
            if not overwritten:
                cands.append(w)
        return cands
    # upstream contacts per probe
    served = {}
    for r in R.records:
        if r.get("label") == "upreq" and r.get("res") == "ok":
            try:
                mth, target, ver, hdrs, rest = rc.parse_http_request(bytes.fromhex(r["hex"]))
                port = int(target.rsplit(b":", 1)[1])
            except (rc.ParseError, ValueError, IndexError):
                continue
            served.setdefault(port, []).append(r["actor"][3:])
    for p in meta["probes"]:
        cid = "p%d" % p["k"]
        if cid not in present:
            continue
        ops = R.ops(cid)
        conn = R.connect(cid)
        if not ops or conn is None or conn.get("connect") != "ok":
            continue
        inv, ret = conn["s0"], ops[-1]["s1"]
        who = served.get(p["port"], [])
        told = reply_ok("http", R.op_by_label(cid, "reply"))
        observed = who[0] if who else None
        if len(who) > 1:
            v("probe-served-twice", "probe %s reached %s" % (cid, who))
        cands = possible_at(inv, ret)
        allowed = set()
        for w in cands:
            d = decide([(None, c, t) for c, t in w["list"]], p["host"], p["listener"])
            allowed.add(None if d in (None, "deny") else d)
        if observed not in allowed:
            v("decision-from-no-list", "probe %s (%s on %s) was sent to %s; the lists that could be in force (%s) decide %s" % (
                cid, p["host"], p["listener"], observed, [w["name"] for w in cands], sorted(str(a) for a in allowed)))
        elif (observed is not None) != told:
            v("probe-reply-inconsistent", "probe %s: upstream contacted=%s but client told established=%s" % (cid, observed, told))
    # GET /rules: must equal one of the lists that can be in force
    for p in meta["posts"] + [{"kind": "get", "cid": "final", "k": -1}]:
        if p["kind"] != "get" or p["cid"] not in present:
            continue
        ops = R.ops(p["cid"])
        h = R.history(p["cid"])
        if not ops or not h or h[0] != 200:
            v("get-rules-failed", "GET /rules answered %s" % (h and h[0]))
            continue
        try:
            got = norm(json.loads(h[2]))
        except ValueError:
            v("get-rules-failed", "GET /rules body is not JSON")
            continue
        cands = possible_at(ops[0]["s0"], ops[-1]["s1"])
        if not any(got == render(w["list"]) for w in cands):
            v("get-rules-mismatch", "GET /rules (%s) returned %s which is none of the lists that can be in force %s" % (p["cid"], got, [w["name"] for w in cands]))
    return V


def probes(plan, out):
    meta = plan["meta"]
    valid = [p for p in meta["posts"] if p["kind"] == "valid"]
    near = sum(1 for q in meta["probes"] for p in meta["posts"] if abs(q["at"] - p["at"]) <= 3)
    return {"nontrivial": len(valid) >= 1, "valid_posts": len(valid), "invalid_posts": sum(1 for p in meta["posts"] if p["kind"] in ("syntax", "type", "unknown-target")),
            "probes_near_a_post": near}
