"""C14 — management API never blocks the data plane; a stalled client hurts only itself."""
import json

from .. import gen as G, refcodec as rc
from ..core import Violation
from ..gen import Scenario, op, send, tag_header, TAG_XOR
from .c01 import reply_ok

ID = "C14"
BUDGET = {"quick": 40, "thorough": 600}
MAX_RUNS = {"quick": 6000, "thorough": 300000}
TECHNIQUE = "deterministic simulation with fault injection: clients stalled at seeded handshake offsets and back-pressured tunnels, API calls interleaved at seeded instants, bounded-liveness oracle on the virtual clock"
RULE = ("plans: 1-5 clients stalled after j bytes of their handshake (every listener protocol incl. TLS ClientHello prefixes and QUIC streams), 0-2 tunnels whose far end "
        "stops reading, API calls (GET status/live/history/rules/metrics, POST rules/logrotate) at seeded instants, canary tunnels on every listener before, during "
        "(1-50 ms after an API call was issued) and after; non-trivial = at least one stalled client and one API call overlap a canary; distinct = event-order hash")
RULE_MORE = 'Later additions: requests whose upstream never answers; a QUIC client stuck in its handshake; clients that never read a large error page; a crowd of connections with long names plus an API client that asks for /api/live and never reads (hyper write buffer 8 KiB); blocking sleeps on the runtime thread are accounted and judged.'
LEVEL_TEXT = ("seeded exploration of the real listeners, registry locks, GC task and axum handlers: because the whole world is one deterministic event queue on a virtual clock, "
              "'the call did not return within 5 virtual seconds' is an observation, not a guess - nothing but periodic tickers was runnable in between")
LEVEL_NOTE = "bounds: API call <= 5 virtual s, canary established <= 5 virtual s; stalled clients may stay stalled forever; single-threaded runtime (task-level interleavings)"
ASSUMPTIONS = []

BOUND_US = 5_000_000
APIS = [("GET", "/api/status"), ("GET", "/api/live"), ("GET", "/api/live"), ("GET", "/api/history"), ("GET", "/api/rules"), ("GET", "/api/metrics"), ("POST", "/api/logrotate"), ("POST", "/api/rules")]


def gen(rng, tier, i):
    sc = Scenario(rng)
    cname, chaos = G.pick_chaos(rng, weights=(("none", 2), ("mild", 3)))
    if chaos:
        chaos["capacity"] = rng.choice([4096, 65536])
    sc.net["chaos"] = chaos
    sc.net["spawn_yield"] = rng.choice([0, 300])
    sc.net["lock_yield"] = rng.choice([0, 100, 500])   # seeded scheduling points at the asynchronous locks
    sc.cfg["timeouts"] = {"idle": 3600}
    lis = {"http": sc.add_http_listener("l-http"), "https": sc.add_http_listener("l-https", tls=True), "socks": sc.add_socks_listener("l-socks")}
    use_quic = rng.random() < (0.5 if tier == "thorough" else 0.25)
    if use_quic:
        lis["quic"] = sc.add_quic_listener("l-quic")
    sc.add_direct("d")
    sc.rule("d")
    oip, oport = sc.origin_ip(), sc.port()
    sc.add_origin("%s:%d" % (oip, oport), default_ops=[op("serve_tagged", timeout_ms=30000)], oid="origin")
    sink_port = sc.port()
    # an origin that accepts and never reads: tunnels to it become back-pressured
    sc.add_origin("%s:%d" % (oip, sink_port), default_ops=[op("sleep", ms=3600000)], oid="sink")
    stalled = []
    t_stall = rng.choice([20, 100, 1000])
    for k in range(rng.randint(1, 5)):
        lk = rng.choice(list(lis))
        li = lis[lk]
        hs, proto = sc.client_handshake(li, oip, oport, variant="5p" if lk == "socks" else None)
        whole = bytes.fromhex(hs[0]["hex"])
        if lk == "https" and rng.random() < 0.4:
            # stall inside the TLS handshake itself: a raw client that sends a few bytes of a ClientHello
            j = rng.randint(0, 40)
            a = sc.add_client("st%d" % k, li, [send((bytes.fromhex("16030102000100") + bytes(40))[:j]) if j else op("sleep", ms=1), op("sleep", ms=3600000)], start_ms=t_stall + k, background=True)
            a.pop("tls", None)
        else:
            j = rng.randint(0, len(whole) - 1)
            a = sc.add_client("st%d" % k, li, ([send(whole[:j])] if j else []) + [op("sleep", ms=3600000)], start_ms=t_stall + k, background=True)
        stalled.append({"cid": "st%d" % k, "lk": lk, "j": j})
    for k in range(rng.randint(0, 2)):
        li = lis[rng.choice(["http", "socks"])]
        hs, proto = sc.client_handshake(li, oip, sink_port, variant="5p" if li["kind"] == "socks" else None)
        sc.add_client("bp%d" % k, li, hs + [op("send", fill=[77 + k, 3_000_000], timeout_ms=3600000, on_fail="continue"), op("sleep", ms=3600000)], start_ms=t_stall + 10 + k, background=True)
    # a QUIC client stuck in the middle of its handshake: its first flight arrives, nothing ever reaches it
    if use_quic and rng.random() < 0.6:
        qip = sc.client_ip()
        sc.faults.append({"at_ms": 0, "kind": "mute", "ip": qip})
        sc.actors.append({"kind": "quic_client", "id": "qmute", "bind": "%s:5999" % qip, "dst": lis["quic"]["addr"], "start_ms": t_stall, "background": True,
                          "tls": {"sni": "proxy.sim", "ca": G.pki("ca1.crt")}, "ops": [op("sleep", ms=3600000)]})
        stalled.append({"cid": "qmute", "lk": "quic-handshake", "j": 0})
    # requests whose *upstream* never answers: a destination that swallows the SYN (direct connector; the connect gives up
    # after 127 s), or an upstream proxy that accepts the connection and never replies to the CONNECT
    dead_ip = sc.origin_ip()
    silent = sc.add_http_connector("silent")
    silent["server"]["default_ops"] = [op("sleep", ms=3600000)]
    sc.cfg["rules"].insert(0, {"target": "silent", "filter": "request.target.port == 9"})
    upstalled = []
    for k in range(rng.choice([0, 0, 1, 2])):
        li = lis[rng.choice(["http", "socks"])]
        how = rng.choice(["syn", "silent-proxy"])
        hs, proto = sc.client_handshake(li, dead_ip if how == "syn" else oip, 81 if how == "syn" else 9, variant="5p" if li["kind"] == "socks" else None)
        sc.add_client("us%d" % k, li, [dict(o, on_fail="continue", timeout_ms=3600000) for o in hs] + [op("sleep", ms=3600000)], start_ms=t_stall + 20 + k, background=True)
        upstalled.append({"cid": "us%d" % k, "how": how})
    if any(u["how"] == "syn" for u in upstalled):
        sc.faults.append({"at_ms": 0, "kind": "stall", "ip": dead_ip})
    # a client that provokes a large failure reply and never reads it: the upstream proxy refuses verbosely, the proxy
    # quotes the refusal in its error page, the page does not fit the socket buffers - the writer of that page must not
    # hold anything the API or other connections need
    bigno = sc.add_http_connector("bigno")
    bigno["server"]["default_ops"] = [op("recv_http_head", label="upreq", on_fail="continue"),
                                      send(b"HTTP/1.1 403 No\r\n" + b"".join(b"X-Why-%d: %s\r\n" % (n, b"because " * 40) for n in range(300)) + b"Content-Length: 0\r\n\r\n", on_fail="continue"),
                                      op("sleep", ms=3600000)]
    sc.cfg["rules"].insert(0, {"target": "bigno", "filter": "request.target.port == 11"})
    for k in range(rng.choice([0, 0, 1, 2])):
        li = lis[rng.choice(["http", "socks"])]
        hs, proto = sc.client_handshake(li, oip, 11, variant="5p" if li["kind"] == "socks" else None)
        sends = [o for o in hs if o["op"] == "send"]
        sc.add_client("ur%d" % k, li, sends + [op("sleep", ms=3600000)], start_ms=t_stall + 30 + k, background=True)
        stalled.append({"cid": "ur%d" % k, "lk": li["kind"] + "-unread-error", "j": 0})
    # an API client that asks for the list of live connections and never reads the answer, while that list is long (a
    # crowd of connections with long destination names waits for the silent upstream) and the server's buffers are small:
    # the answer cannot be delivered, and that must stay the lazy client's own problem
    lazy = rng.random() < 0.15
    if lazy:
        sc.net["api_buf"] = 8192
        sc.net["chaos"] = dict(sc.net["chaos"] or {}, capacity=4096)
        li = lis["http"]
        for k in range(rng.choice([45, 60])):
            name = "%s.n%d.example.sim" % ("x" * rng.choice([150, 200]), k)
            sc.dns[name] = [oip]
            sc.add_client("cr%d" % k, li, [send(rc.http_connect("%s:9" % name), on_fail="continue"), op("sleep", ms=3600000)], start_ms=t_stall + 40 + k, background=True)
        sc.actors.append({"kind": "tcp_client", "id": "lazyapi", "src": "10.7.0.9", "dst": "%s:%d" % (G.PROXY4, G.API_PORT), "start_ms": t_stall + 1500, "background": True,
                          "ops": [send(b"GET /api/live HTTP/1.1\r\nHost: api\r\n\r\n", on_fail="continue"), op("sleep", ms=3600000)]})
        stalled.append({"cid": "lazyapi", "lk": "api-reader", "j": 0})
    # API calls and canaries
    t0 = t_stall + 2000
    calls = []
    canaries = []
    ncall = rng.randint(1, 6)
    t = t0
    ck = 0

    def canary(at, phase):
        nonlocal ck
        lk = rng.choice(list(lis))
        li = lis[lk]
        seed = rng.getrandbits(60) | 1
        c2s, s2c = rng.choice([0, 10, 2000]), rng.choice([0, 10, 2000])
        hs, proto = sc.client_handshake(li, oip, oport, variant="5p" if lk == "socks" else None)
        ops = hs + [op("par", w=[send(tag_header(seed, c2s, s2c)), op("send", fill=[seed, c2s]), op("shutdown")],
                       r=[op("expect", fill=[seed ^ TAG_XOR, s2c], timeout_ms=20000, label="s2c"), op("recv_eof", timeout_ms=20000, label="eof")])]
        for o in ops:
            o.setdefault("timeout_ms", 20000)
        cid = "can%d" % ck
        ck += 1
        sc.add_client(cid, li, ops, start_ms=at)
        canaries.append({"cid": cid if lk != "quic" else cid + "/s0", "lk": lk, "proto": proto, "at": at, "phase": phase})

    canary(max(5, t_stall - 15), "before")
    rules_body = [dict(r) for r in sc.cfg["rules"]]
    for k in range(ncall):
        t += rng.choice([0, 1, 30, 500, 3000])
        m, p = rng.choice(APIS)
        body = rules_body if (m, p) == ("POST", "/api/rules") else None
        # /metrics renders /proc-derived process statistics of the real process: only its status line is kept
        sc.api_call("api%d" % k, m, p, body=body, start_ms=t, timeout_ms=60000, background=True, **({"keep": 12} if p.endswith("metrics") else {}))
        calls.append({"cid": "api%d" % k, "m": m, "p": p, "at": t})
        if rng.random() < 0.8:
            canary(t + rng.choice([1, 2, 10, 50]), "during")
    canary(t + 8000, "after")
    sc.meta = {"cls": "st%d/api%d" % (len(stalled), ncall), "cfgkey": "%s/%s/%s" % (cname, "-".join(s["lk"] + str(s["j"]) for s in stalled), "-".join(c["p"].split("/")[-1] for c in calls)),
               "stalled": stalled, "upstalled": upstalled, "calls": calls, "canaries": canaries, "keep_ops": True,
               "nondeterministic_bodies": [c["cid"] for c in calls if c["p"].endswith("metrics")]}
    sc.max_ms = t + 8000 + 40000
    return sc.plan(want_events=False)


def oracle(plan, out):
    R = G.Result(out)
    meta = plan["meta"]
    V = []

    def v(clause, sig, text):
        V.append(Violation(ID, clause, "C14/%s/%s" % (clause, sig), text))

    if out["hung"] or not R.ok:
        v("crash", "-", "process ended or hung: exit=%s %s" % (out["exit"], (out["stderr"] or "")[-300:]))
        return V
    for p in R.panics():
        v("panic", "-", "panic at %s: %s" % (p.get("loc"), p.get("msg", "")))
    bl = R.res.get("blocked_sleeps") or {}
    if bl.get("max_us", 0) >= 10_000:
        v("worker-blocked", "-", "a runtime worker was put to sleep %d times (%.3f s at most) by a blocking sleep: every connection scheduled on it stands still meanwhile" % (bl.get("calls", 0), bl.get("max_us", 0) / 1e6))
    stalled_kinds = ",".join(sorted(set(s["lk"] for s in meta["stalled"])))
    present = set(a["id"] for a in plan["actors"])
    for c in meta["calls"]:
        if c["cid"] not in present:
            continue
        conn = R.connect(c["cid"])
        if conn is None or conn.get("connect") != "ok":
            v("api-unreachable", c["p"], "%s %s: could not even connect to the API: %s" % (c["m"], c["p"], conn))
            continue
        rec = None
        for x in R.ops(c["cid"]):
            if x["op"] == "recv_eof":
                rec = x
        if rec is None or rec["res"].startswith("timeout") or rec["t1"] - conn["t0"] > BOUND_US:
            took = ((rec["t1"] - conn["t0"]) / 1e6) if rec and not rec["res"].startswith("timeout") else None
            v("api-blocked", c["p"].split("/")[-1], "%s %s issued at %.3fs %s while clients were stalled in their %s handshake" % (
                c["m"], c["p"], conn["t0"] / 1e6, ("returned only after %.1fs" % took) if took else "never returned (60 s)", stalled_kinds))
            continue
        if c["p"].endswith("metrics"):
            if not bytes.fromhex(rec.get("hex", "")).startswith(b"HTTP/1.1 200"):
                v("api-error", "metrics", "GET /api/metrics answered %r" % bytes.fromhex(rec.get("hex", "")))
            continue
        h = R.history(c["cid"])
        if h is None or h[0] != 200:
            v("api-error", c["p"].split("/")[-1], "%s %s answered %s" % (c["m"], c["p"], h and h[0]))
    for c in meta["canaries"]:
        if c["cid"].split("/")[0] not in present:
            continue
        cid = c["cid"]
        conn = R.connect(cid.split("/")[0])
        if conn is None:
            # never even connected (no record at all): only possible if the run ended before the canary started
            if R.res.get("end_us", 0) > c["at"] * 1000 + BOUND_US:
                v("canary-not-served", "%s/%s" % (c["phase"], c["lk"]), "canary %s on %s (%s the API calls, started %.3fs) never completed its connection" % (cid, c["lk"], c["phase"], c["at"] / 1e3))
            continue
        rep = R.op_by_label(cid, "reply")
        if conn.get("connect") != "ok" or rep is None or not reply_ok(c["proto"], rep):
            v("canary-not-served", "%s/%s" % (c["phase"], c["lk"]), "canary %s on %s (%s the API calls, started %.3fs) was not served: connect=%s reply=%s" % (
                cid, c["lk"], c["phase"], c["at"] / 1e3, conn.get("connect"), rep and rep["res"]))
            continue
        if rep["t1"] - conn["t0"] > BOUND_US:
            v("canary-delayed", "%s/%s" % (c["phase"], c["lk"]), "canary %s on %s (%s the API calls) was established only after %.1fs" % (cid, c["lk"], c["phase"], (rep["t1"] - conn["t0"]) / 1e6))
        e = R.op_by_label(cid, "s2c")
        x = R.op_by_label(cid, "eof")
        if e is None or e["res"] != "ok" or x is None or x["res"] != "eof@0":
            v("canary-not-served", "%s/%s" % (c["phase"], c["lk"]), "canary %s on %s: payload did not complete: %s / %s" % (cid, c["lk"], e and e["res"], x and x["res"]))
    return V


def probes(plan, out):
    meta = plan["meta"]
    during = sum(1 for c in meta["canaries"] if c["phase"] == "during")
    return {"nontrivial": bool(meta["stalled"]) and during > 0, "stalled_clients": len(meta["stalled"]), "stalled_upstream_connects": len(meta.get("upstalled", [])), "api_calls": len(meta["calls"]), "canaries_during": during,
            "live_calls": sum(1 for c in meta["calls"] if c["p"].endswith("live")),
            "lazy_api_reader": any(s["cid"] == "lazyapi" for s in meta["stalled"])}
