"""C04 — end-of-stream and abort are relayed faithfully, identically in both I/O modes."""
import json

from .. import gen as G, refcodec as rc
from ..core import Violation
from ..gen import Scenario, op, send
from .c01 import make_listener, make_connector, reply_ok

ID = "C04"
BUDGET = {"quick": 45, "thorough": 700}
MAX_RUNS = {"quick": 8000, "thorough": 300000}
TECHNIQUE = "deterministic simulation with fault injection: FIN/RST injected at seeded byte offsets with data in flight, same absolute oracle in buffered and splice(2) I/O modes (differential by construction)"
RULE = ("plans: listener (http/https/socks5/socks4/reverse) x connector (direct/http/socks5/https) x io mode (in-memory buffered; kernel-lane buffered; "
        "kernel-lane splice) x close script (client half-close then origin keeps sending; origin half-close then client keeps sending; simultaneous FIN; "
        "client RST or origin RST at a seeded offset with bytes in flight the other way; close while the peer is back-pressured) x chaos; non-trivial = "
        "tunnel established and a FIN or RST landed while >=1 byte was still to be delivered in some direction; distinct = event-order hash")
RULE_MORE = 'Later additions: SO_LINGER 0 is modelled on the in-memory lane; reset-and-hold scripts with /api/live polls; seeded short splice counts; an abort while the proxy is blocked writing to a peer that does not read (bp-rst).'
LEVEL_TEXT = ("seeded exploration of the real copy loop (both copy_half branches, real splice(2)/pipe(2)/poll(2) on the kernel lane): every plan closes or aborts "
              "one side at a seeded offset and checks on the virtual clock that EOF is seen only after all bytes, that the opposite direction keeps "
              "flowing, that both sockets are closed promptly after both ends finished or one aborted, and that the record ends in exactly one terminal state")
LEVEL_NOTE = ("G = 3 virtual s on the in-memory lane, 30 s on the kernel lane (each I/O readiness there is only noticed when the paused clock steps to the next "
              "timer, so timing is distorted; outcomes are not); kernel lane uses AF_UNIX stream pairs, RST there is close-with-unread-data")
ASSUMPTIONS = ["abort is modelled as immediate RST that discards bytes in flight"]

SCRIPTS = [("half-c", 3), ("half-s", 3), ("simul", 2), ("rst-c", 2), ("rst-s", 2), ("rst-c-hold", 2), ("rst-s-hold", 2), ("backpressure", 1), ("bp-rst", 1)]


def wchoice(rng, items):
    return rng.choice([n for n, w in items for _ in range(w)])


def gen(rng, tier, i):
    sc = Scenario(rng)
    mode = rng.choice(["mem", "mem", "mem", "kbuf", "ksplice", "ksplice"])
    if mode == "mem":
        lk = rng.choice(["http", "http", "https", "socks5", "socks5p", "socks4", "reverse", "tproxy"])
        ck = rng.choice(["direct", "direct", "http", "socks5", "https", "socks4"])
        cname, chaos = G.pick_chaos(rng, weights=(("none", 1), ("mild", 3), ("heavy", 2)))
        if chaos:
            chaos["capacity"] = rng.choice([4096, 65536, 1 << 20])
        sc.net["chaos"] = chaos
        sc.net["spawn_yield"] = rng.choice([0, 300])
        sc.net["lock_yield"] = rng.choice([0, 0, 300])   # seeded scheduling points at the asynchronous locks
        Gus = 3_000_000
    else:
        lk = rng.choice(["http", "socks5", "socks4", "reverse", "tproxy"])
        ck = rng.choice(["direct", "direct", "http", "socks5"])
        sc.net["backend"] = "kernel"
        cname = "kernel"
        Gus = 30_000_000
        if mode == "ksplice":
            # splice(2) may move fewer bytes than asked for (full socket buffer): seeded short counts
            short = rng.choice([0, 50, 400])
            if short:
                sc.net["chaos"] = {"short_write": short}
                cname = "kernel-short"
    bufsz = rng.choice([512, 4096, 65536])
    sc.cfg["ioParams"] = {"bufferSize": bufsz, "useSplice": mode == "ksplice"}
    sc.cfg["timeouts"] = {"idle": 600}
    script = wchoice(rng, SCRIPTS)
    if mode != "mem" and script == "bp-rst":
        script = "backpressure"
    if mode != "mem" and script in ("rst-c", "rst-s"):
        # on the kernel lane (AF_UNIX pairs) an abort is a close with unread data in the receive queue: only the
        # -hold variants arrange for that
        script = rng.choice(["half-c", "half-s", "simul", script + "-hold"])
    oip, oport = sc.origin_ip(), sc.port()
    li = make_listener(sc, lk, target="%s:%d" % (oip, oport))
    ci = make_connector(sc, ck)
    sc.rule(ci["name"])
    a = rng.choice([0, 1, 100, bufsz, bufsz + 1, 3 * bufsz + 7, 20000])   # c->s before the event
    b = rng.choice([0, 1, 100, bufsz, 2 * bufsz + 3, 20000])               # s->c before the event
    c = rng.choice([0, 1, 500, bufsz + 5, 10000])                          # sent by the survivor after it saw EOF
    big = 900000
    variant = {"socks5": "5", "socks5p": "5p", "socks4": "4"}.get(lk)
    hs, proto = sc.client_handshake(li, oip, oport, variant=variant)
    S1, S2, S3, S4 = 101, 202, 303, 404
    if script == "half-c":
        # client: send a, FIN; keeps reading b then c then EOF. origin: send b; read a; see EOF; then send c; FIN.
        cl = [op("par", w=[op("send", fill=[S1, a]), op("shutdown", label="fin")],
                 r=[op("expect", fill=[S2, b], timeout_ms=big, label="pre"), op("expect", fill=[S3, c], timeout_ms=big, label="post"), op("recv_eof", timeout_ms=big, label="eof")])]
        og = [op("par", w=[op("send", fill=[S2, b])], r=[op("expect", fill=[S1, a], timeout_ms=big, label="pre"), op("recv_eof", timeout_ms=big, label="eof")]),
              op("send", fill=[S3, c], label="post-send"), op("shutdown", label="fin")]
    elif script == "half-s":
        og = [op("par", w=[op("send", fill=[S2, b]), op("shutdown", label="fin")],
                 r=[op("expect", fill=[S1, a], timeout_ms=big, label="pre"), op("expect", fill=[S3, c], timeout_ms=big, label="post"), op("recv_eof", timeout_ms=big, label="eof")])]
        cl = [op("par", w=[op("send", fill=[S1, a])], r=[op("expect", fill=[S2, b], timeout_ms=big, label="pre"), op("recv_eof", timeout_ms=big, label="eof")]),
              op("send", fill=[S3, c], label="post-send"), op("shutdown", label="fin")]
    elif script == "simul":
        cl = [op("par", w=[op("send", fill=[S1, a]), op("shutdown", label="fin")], r=[op("expect", fill=[S2, b], timeout_ms=big, label="pre"), op("recv_eof", timeout_ms=big, label="eof")])]
        og = [op("par", w=[op("send", fill=[S2, b]), op("shutdown", label="fin")], r=[op("expect", fill=[S1, a], timeout_ms=big, label="pre"), op("recv_eof", timeout_ms=big, label="eof")])]
    elif script == "rst-c":
        # client sends a then aborts; origin was sending b (may be cut) and must see the end promptly
        cl = [op("send", fill=[S1, a]), op("sleep", ms=rng.choice([0, 1, 5, 50])), op("reset", label="rst")]
        og = [op("par", w=[op("send", fill=[S2, b], on_fail="continue")], r=[op("recv_eof", timeout_ms=big, label="end", keep=0)])]
    elif script == "rst-s":
        og = [op("send", fill=[S2, b]), op("sleep", ms=rng.choice([0, 1, 5, 50])), op("reset", label="rst")]
        cl = [op("par", w=[op("send", fill=[S1, a], on_fail="continue")], r=[op("recv_eof", timeout_ms=big, label="end", keep=0)])]
    elif script in ("rst-c-hold", "rst-s-hold"):
        # the survivor has sent d >= 1 bytes which the aborter never reads (so that the abort is a reset on every lane), then
        # stays silent, keeps its socket open after it saw the end, and finally probes with a write: by then the proxy must
        # have closed that socket as well, and the connection must be gone from /api/live
        d = max(1, b)
        if mode == "mem" and rng.random() < 0.15:
            # both ends write more than the buffers hold before either reads: the proxy is still handing the aborter's early bytes to
            # a survivor that is itself blocked in its send when the abort comes
            sc.net["chaos"] = dict(sc.net.get("chaos") or {}, capacity=4096)
            a, d = rng.choice([4097, 20000]), 20000
        hold = Gus // 1000 + 4000
        # (the survivor only sends once the aborter has finished its handshake reads, so that the bytes really stay unread)
        ab = [op("set", flag="ready"), op("send", fill=[S1, a]), op("sleep", ms=rng.choice([1500, 3000])), op("reset", label="rst"), op("set", flag="aborted")]
        sv = [op("wait", flag="ready", timeout_ms=big), op("send", fill=[S2, d], label="svsend"), op("recv_eof", timeout_ms=big, label="end", keep=0, on_fail="continue"), op("sleep", ms=hold),
              op("send", hex="00", on_fail="continue", label="probe1"), op("sleep", ms=1000), op("send", hex="00", on_fail="continue", label="probe2"), op("close")]
        cl, og = (ab, sv) if script == "rst-c-hold" else (sv, ab)
        sc.api_call("live", "GET", "/api/live", start_flag="aborted")
        sc.actors[-1]["ops"].insert(0, op("sleep", ms=Gus // 1000 + 2000))
    elif script == "bp-rst":
        # the origin never reads; the client writes until it is blocked, then aborts. The proxy is then in the middle of a write
        # it cannot finish - and still has to notice the abort and close both sockets, not hold them until the idle timeout
        a = max(a, 3000000)
        cl = [op("send", fill=[S1, a], timeout_ms=20000, on_fail="continue", label="blocked"), op("reset", label="rst"), op("set", flag="aborted")]
        og = [op("sleep", ms=20000 + Gus // 1000 + 6000), op("close")]
        sc.api_call("live", "GET", "/api/live", start_flag="aborted")
        sc.actors[-1]["ops"].insert(0, op("sleep", ms=Gus // 1000 + 2000))
    else:  # backpressure: origin never reads; client writes a lot then closes; origin then closes
        a = max(a, 300000)
        cl = [op("send", fill=[S1, a], timeout_ms=20000, on_fail="continue", label="blocked"), op("close", label="cclose")]
        og = [op("sleep", ms=25000), op("recv_eof", timeout_ms=big, label="end", keep=0)]
    # fake upstream or origin
    if ci["kind"] == "direct":
        sc.add_origin("%s:%d" % (oip, oport), conns=[og], oid="origin")
        oid = "origin#0"
    else:
        ci["server"]["conns"] = [sc.upstream_handshake(ci) + og]
        oid = ci["server"]["id"] + "#0"
    sc.add_client("c", li, hs + cl, start_ms=10)
    sc.api_call("hist", "GET", "/api/history", start_ms=700000)
    sc.meta = {"cls": "%s/%s>%s/%s" % (mode, lk, ck, script), "cfgkey": "%s/%s>%s/%s/b%d/%s/%d-%d-%d" % (mode, lk, ck, script, bufsz, cname, a, b, c),
               "mode": mode, "script": script, "proto": proto, "oid": oid, "a": a, "b": b, "c": c, "G": Gus, "keep_ops": True, "no_generic_fill_shrink": True,
               "nh": len(hs)}
    sc.max_ms = 800000
    return sc.plan(want_events=False)


def oracle(plan, out):
    R = G.Result(out)
    meta = plan["meta"]
    V = []
    tag = "%s/%s" % (meta["script"], "splice" if meta["mode"] == "ksplice" else "buffered")

    def v(clause, text, **d):
        V.append(Violation(ID, clause, "C04/%s/%s" % (clause, tag), text, d))

    if out["hung"] or not R.ok:
        v("crash", "process ended or hung: exit=%s %s" % (out["exit"], out["stderr"][-300:]))
        return V
    for p in R.panics():
        v("panic", "panic at %s: %s" % (p.get("loc"), p.get("msg", "")))
    if meta["proto"] != "reverse" and not reply_ok(meta["proto"], R.op_by_label("c", "reply")):
        return V
    oid = meta["oid"]
    Gus = meta["G"]
    sc = meta["script"]

    def lab(conn, label):
        return R.op_by_label(conn, label)

    def need_ok(conn, label, what):
        r = lab(conn, label)
        if r is None:
            v("stream-missing", "%s: %s never ran" % (conn, what))
            return None
        if r["res"] != "ok":
            v("bytes-lost" if not r["res"].startswith("mismatch") else "bytes-corrupt", "%s: %s: %s" % (conn, what, r["res"]))
            return None
        return r

    def need_eof(conn, label, fin_rec, what):
        r = lab(conn, label)
        if r is None:
            return
        if r["res"].startswith("timeout"):
            v("eof-not-relayed", "%s: %s: end of stream never observed (%s) although the peer ended its direction at %.3fs" % (conn, what, r["res"], (fin_rec or {}).get("t1", 0) / 1e6))
            return
        if not r["res"].startswith("eof@"):
            v("eof-as-error", "%s: %s: the direction ended with %s instead of a clean end of stream" % (conn, what, r["res"]))
            return
        if r["res"] != "eof@0":
            v("extra-bytes", "%s: %s: %s unexpected bytes before EOF" % (conn, what, r["res"][4:]))
        if fin_rec is not None and r["t1"] > max(fin_rec["t1"], r["t0"]) + Gus:
            v("eof-late", "%s: %s: EOF observed %.3fs after the peer's FIN (bound %.0fs)" % (conn, what, (r["t1"] - fin_rec["t1"]) / 1e6, Gus / 1e6))

    if sc in ("half-c", "half-s", "simul"):
        first, second = ("c", oid) if sc != "half-s" else (oid, "c")
        if sc == "simul":
            need_ok("c", "pre", "origin->client bytes before the close")
            need_ok(oid, "pre", "client->origin bytes before the close")
            need_eof("c", "eof", lab(oid, "fin"), "origin->client direction")
            need_eof(oid, "eof", lab("c", "fin"), "client->origin direction")
        else:
            # `first` half-closes; `second` must see EOF after all bytes, then its later bytes must still arrive
            need_ok(second, "pre", "bytes sent before the half-close")
            need_eof(second, "eof", lab(first, "fin"), "half-closed direction")
            need_ok(first, "pre", "bytes of the opposite direction sent before the half-close")
            post = lab(first, "post")
            if post is not None and post["res"] != "ok":
                v("opposite-direction-cut", "%s: bytes sent by the peer after it saw EOF did not arrive: %s" % (first, post["res"]))
            need_eof(first, "eof", lab(second, "fin"), "opposite direction")
    elif sc in ("rst-c", "rst-s", "rst-c-hold", "rst-s-hold"):
        aborter, other = ("c", oid) if sc.startswith("rst-c") else (oid, "c")
        if sc.endswith("-hold") and lab(aborter, "rst") is not None:
            # promptly closed on both sides and recorded as finished, although the survivor keeps its socket open
            lv = R.history("live")
            if lv and lv[0] == 200:
                try:
                    still = [h.get("id") for h in json.loads(lv[2]) if h.get("listener", "").startswith("l-")]
                except ValueError:
                    still = []
                if still:
                    sv_send = lab(other, "svsend")
                    if sv_send is not None and sv_send["res"] != "ok":
                        # the survivor itself was blocked in its send (it writes without reading, the proxy was still handing it the
                        # aborter's early bytes): the proxy sat in a write towards a peer that does not read when the abort came -
                        # the input class of the known finding bp-rst, reached through the hand-over of the handshake buffers
                        V.append(Violation(ID, "live-after-abort", "C04/live-after-abort/survivor-blocked/%s" % ("splice" if meta["mode"] == "ksplice" else "buffered"),
                                           "%s aborted at %.3fs while the proxy was blocked writing to %s, which was itself blocked in a send (%s); %.0fs later the connection is still listed by /api/live" % (
                                               aborter, lab(aborter, "rst")["t1"] / 1e6, other, sv_send["res"], Gus / 1e6 + 2), {}))
                    else:
                        v("live-after-abort", "%s aborted at %.3fs; %.0fs later the connection is still listed by /api/live" % (aborter, lab(aborter, "rst")["t1"] / 1e6, Gus / 1e6 + 2))
            p2 = lab(other, "probe2")
            if p2 is not None and p2["res"] == "ok":
                v("socket-open-after-abort", "%s aborted at %.3fs; %s could still write to its connection at %.3fs: the proxy has not closed it" % (aborter, lab(aborter, "rst")["t1"] / 1e6, other, p2["t1"] / 1e6))
        rst = lab(aborter, "rst")
        end = lab(other, "end")
        if rst is not None and end is not None:
            if end["res"].startswith("timeout"):
                v("abort-not-relayed", "%s aborted at %.3fs but %s never saw its connection end (%s)" % (aborter, rst["t1"] / 1e6, other, end["res"]))
            elif end["t1"] > max(rst["t1"], end["t0"]) + Gus:
                v("abort-late", "%s aborted at %.3fs; %s saw the end only at %.3fs" % (aborter, rst["t1"] / 1e6, other, end["t1"] / 1e6))
    elif sc == "bp-rst":
        rst = lab("c", "rst")
        blocked = lab("c", "blocked")
        lv = R.history("live")
        if rst is not None and blocked is not None and blocked["res"].startswith("timeout") and lv and lv[0] == 200:
            try:
                still = [h.get("id") for h in json.loads(lv[2]) if h.get("listener", "").startswith("l-")]
            except ValueError:
                still = []
            if still:
                v("live-after-abort", "the client aborted at %.3fs while the proxy was blocked writing to an origin that does not read; %.0fs later the connection is still listed by /api/live (both sockets held)" % (
                    rst["t1"] / 1e6, Gus / 1e6 + 2))
    else:
        cc = lab("c", "cclose")
        end = lab(oid, "end")
        if cc is not None and end is not None:
            if end["res"].startswith("timeout"):
                v("close-not-relayed", "client closed at %.3fs while back-pressured; the origin never saw the end (%s)" % (cc["t1"] / 1e6, end["res"]))
            elif end["t1"] > max(cc["t1"], end["t0"]) + Gus + 1_000_000:
                v("close-late", "client closed at %.3fs; the origin saw the end only at %.3fs" % (cc["t1"] / 1e6, end["t1"] / 1e6))
    # the record: exactly one terminal state, promptly
    hist = R.history("hist")
    if hist and hist[0] == 200:
        try:
            recs = [h for h in json.loads(hist[2]) if h.get("listener", "").startswith("l-")]
        except ValueError:
            recs = []
        if not recs:
            v("no-record", "no history record for the tunnel after it ended")
        for h in recs:
            states = [s["state"] for s in h.get("state", [])]
            term = [s for s in states if s in ("Terminated", "ErrorOccured")]
            if len(term) != 1 or states[-1] not in ("Terminated", "ErrorOccured"):
                v("record-not-terminal", "state list %s does not end in exactly one terminal state" % states)
    # both sockets closed: nothing of the tunnel may still be open at the end of the run
    for oc in R.res.get("open_conns", []):
        if oc["label"].startswith("c:c#") or oc["label"].startswith("p>"):
            v("socket-left-open", "connection %s (%s -> %s) still open at the end of the run (%.0fs)" % (oc["label"], oc["a"], oc["b"], R.res.get("end_us", 0) / 1e6))
    return V


def probes(plan, out):
    R = G.Result(out)
    meta = plan["meta"]
    est = meta["proto"] == "reverse" or reply_ok(meta["proto"], R.op_by_label("c", "reply")) if R.ok else False
    inflight = (meta["a"] > 0 or meta["b"] > 0 or meta["c"] > 0)
    return {"nontrivial": bool(est and inflight), "established": bool(est), "splice": meta["mode"] == "ksplice", "kernel_lane": meta["mode"] != "mem",
            "rst": meta["script"].startswith("rst"), "half_close": meta["script"].startswith("half")}
