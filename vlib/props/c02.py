"""C02 — routing: first matching rule wins, default deny, nothing leaks on deny."""
import ipaddress
import json
import re

from .. import gen as G, refcodec as rc
from ..core import Violation
from ..gen import Scenario, op, send

ID = "C02"
BUDGET = {"quick": 40, "thorough": 600}
MAX_RUNS = {"quick": 8000, "thorough": 300000}
TECHNIQUE = "deterministic simulation: concurrent requests against generated rule lists, observer on every upstream, independent first-match reference evaluator"
RULE = ("plans: rule lists of 0-8 rules over a generated filter grammar (==, !=, <, >, =~, !~, _:, cidr_match, &&, ||, !, filters that error at run time, "
        "filterless rules, deny at any position, duplicates) x 2-4 connectors each wired to its own observable upstream (+ a TCP-only load balancer) x 1-6 "
        "concurrent requests varying listener, client address (IPv4, IPv6, v4-mapped), target (domain/IPv4/IPv6), port and feature (TCP/UDP), each with payload "
        "sent eagerly behind the handshake; non-trivial = the rule list has >= 2 rules and the decision differs between at least two requests or a deny/no-match occurred")
RULE_MORE = "Later additions: diverted (TPROXY TCP) requests; v4-compatible IPv6 sources; IPv4 destinations spelled as IPv4-mapped IPv6 literals, as an address and in a name field; anchored plain-text regex patterns derived from the plan's hosts; a SOCKS4 upstream as routing target."
LEVEL_TEXT = ("seeded exploration of the real dispatch path (process_request, Rule::evaluate, milu, connectors' feature sets) that no test calls: the harness owns an "
              "independent evaluator for the generated grammar and observes which upstream is contacted, what the client is told, what the API history records, "
              "and whether any byte of a refused client's payload shows up anywhere")
LEVEL_NOTE = "the decision itself is a pure function; simulation contributes the upstream-side observer, concurrency and the real wiring; trusts the reference evaluator (python ipaddress / re)"
ASSUMPTIONS = ["cidr_match is compared on valid network prefixes only (host bits clear)"]

TLDS = ["example.sim", "corp.sim", "test.sim"]


def lit(s):
    return '"' + s.replace("\\", "\\\\").replace('"', '\\"') + '"'


class Ctx:
    def __init__(self, listener, src_host, src_port, src_type, tgt_host, tgt_port, tgt_type, feature):
        self.d = {"request.listener": listener, "request.source.host": src_host, "request.source.port": src_port, "request.source.type": src_type,
                  "request.target.host": tgt_host, "request.target.port": tgt_port, "request.target.type": tgt_type, "request.feature": feature}


class EvalError(Exception):
    pass


def gen_atom(rng, pool):
    """returns (text, fn(ctx)->bool)"""
    k = rng.randrange(12)
    if k == 0:
        name = rng.choice(pool["listeners"])
        neg = rng.random() < 0.3
        return ('request.listener %s %s' % ("!=" if neg else "==", lit(name)), lambda c, name=name, neg=neg: (c.d["request.listener"] == name) != neg)
    if k == 1:
        ip = rng.choice(pool["src_ips"])
        return ('request.source.host == %s' % lit(ip), lambda c, ip=ip: c.d["request.source.host"] == ip)
    if k == 2:
        h = rng.choice(pool["tgt_hosts"])
        return ('request.target.host == %s' % lit(h), lambda c, h=h: c.d["request.target.host"] == h)
    if k == 3:
        t = rng.choice(["domain", "ipv4", "ipv6"])
        which = rng.choice(["target", "source"])
        return ('request.%s.type == %s' % (which, lit(t)), lambda c, t=t, which=which: c.d["request.%s.type" % which] == t)
    if k == 4:
        p = rng.choice(pool["ports"] + [0, 65535])
        # "<=" and ">=" are not accepted by the rule-language parser (a C09 matter, outside this technique): not generated
        o = rng.choice(["==", "!=", "<", ">"])
        f = {"==": lambda a, b: a == b, "!=": lambda a, b: a != b, "<": lambda a, b: a < b, ">": lambda a, b: a > b, "<=": lambda a, b: a <= b, ">=": lambda a, b: a >= b}[o]
        return ('request.target.port %s %d' % (o, p), lambda c, p=p, f=f: f(c.d["request.target.port"], p))
    if k == 5:
        pat, rx = rng.choice([("\\\\.example\\\\.sim$", r"\.example\.sim$"), ("^o[0-9]+", r"^o[0-9]+"), ("corp", r"corp"), ("^10\\\\.", r"^10\."), ("[a-f0-9]*:[a-f0-9:]+", r"[a-f0-9]*:[a-f0-9:]+"), ("^$", r"^$")])
        if rng.random() < 0.4:
            # anchors around plain text taken from a host of this plan ("^corp", "sim$", "^10"): nothing in them needs escaping
            h = rng.choice(pool["tgt_hosts"])
            parts = [x for x in re.split(r"[^A-Za-z0-9-]+", h) if x]
            if parts:
                pat = rx = rng.choice(["^" + parts[0], parts[-1] + "$", "^" + parts[0][:2], parts[-1][-1:] + "$"] + (["^" + h + "$"] if len(parts) == 1 else []))
        neg = rng.random() < 0.3
        return ('request.target.host %s "%s"' % ("!~" if neg else "=~", pat), lambda c, rx=rx, neg=neg: (re.search(rx, c.d["request.target.host"]) is not None) != neg)
    if k == 6:
        f = rng.choice(["TcpForward", "UdpForward"])
        return ('request.feature == %s' % lit(f), lambda c, f=f: c.d["request.feature"] == f)
    if k in (7, 8):
        which = rng.choice(["source", "target"])
        net = rng.choice(pool["nets"])

        def fn(c, which=which, net=net):
            try:
                ip = ipaddress.ip_address(c.d["request.%s.host" % which])
            except ValueError:
                return False
            n = ipaddress.ip_network(net)
            return ip.version == n.version and ip in n
        return ('cidr_match(request.%s.host, %s)' % (which, lit(net)), fn)
    if k == 9:
        hs = rng.sample(pool["tgt_hosts"], min(len(pool["tgt_hosts"]), rng.randint(1, 3)))
        return ('request.target.host _: [%s]' % ",".join(lit(h) for h in hs), lambda c, hs=hs: c.d["request.target.host"] in hs)
    if k == 10:
        # errors at run time unless the host is a decimal integer: counts as "no match"
        def fn(c):
            h = c.d["request.target.host"]
            if re.fullmatch(r"[+-]?[0-9]+", h) is None:
                raise EvalError()
            return int(h) > 0
        return ('to_integer(request.target.host) > 0', fn)
    b = rng.random() < 0.5
    return ("true" if b else "false", lambda c, b=b: b)


def gen_expr(rng, pool, depth=0):
    r = rng.random()
    if depth >= 3 or r < 0.45:
        return gen_atom(rng, pool)
    if r < 0.6:
        t, f = gen_expr(rng, pool, depth + 1)
        return ("!(%s)" % t, lambda c, f=f: not f(c))
    (ta, fa), (tb, fb) = gen_expr(rng, pool, depth + 1), gen_expr(rng, pool, depth + 1)
    if rng.random() < 0.5:
        return ("(%s) %s (%s)" % (ta, rng.choice(["&&", "and"]), tb), lambda c, fa=fa, fb=fb: fa(c) and fb(c))
    return ("(%s) %s (%s)" % (ta, rng.choice(["||", "or"]), tb), lambda c, fa=fa, fb=fb: fa(c) or fb(c))


def gen(rng, tier, i):
    sc = Scenario(rng)
    cname, chaos = G.pick_chaos(rng, weights=(("none", 2), ("mild", 3), ("heavy", 1)))
    if chaos:
        chaos["capacity"] = 1 << 20
    sc.net["chaos"] = chaos
    sc.net["spawn_yield"] = rng.choice([0, 300, 600])
    sc.net["lock_yield"] = rng.choice([0, 0, 300])   # seeded scheduling points at the asynchronous locks
    # listeners: http and socks, on v4 and dual-stack binds
    lh = sc.add_http_listener("l-http")
    ls = sc.add_socks_listener("l-socks")
    if rng.random() < 0.5:
        sc.cfg["listeners"][0]["bind"] = "[::]:%d" % lh["port"]
    ltp = sc.add_tproxy_listener("l-tp")
    listeners = {"l-http": lh, "l-socks": ls, "l-tp": ltp}
    # connectors: observable fake HTTP upstreams
    nconn = rng.randint(2, 4)
    conns = []
    for k in range(nconn):
        ci = sc.add_http_connector("u%d" % k)
        ci["server"]["default_ops"] = [op("recv_http_head", label="upreq"), send(b"HTTP/1.1 200 OK\r\nSession-Id: 7\r\n\r\n"), op("recv_eof", timeout_ms=60000, label="upbytes", keep=8192)]
        conns.append(ci)
    lb = sc.add_loadbalance("lb-tcp", [conns[0]])
    # a SOCKS4 upstream: TCP only (the protocol has no UDP command)
    us4 = sc.add_socks_connector("us4", version=4)
    us4["server"]["default_ops"] = [op("recv_socks4_request", label="upreq"), send(bytes([0, 90, 0, 0, 0, 0, 0, 0])), op("recv_eof", timeout_ms=60000, label="upbytes", keep=8192)]
    targets = ["u%d" % k for k in range(nconn)] + ["lb-tcp", "deny", "us4"]
    # request pool
    nreq = rng.randint(1, 6)
    pool = {"listeners": ["l-http", "l-socks", "l-tp", "other"], "src_ips": [], "tgt_hosts": [], "ports": [],
            "nets": ["10.1.0.0/16", "10.1.0.0/30", "10.0.0.0/8", "0.0.0.0/0", "fd01::/16", "fd01::/126", "::/0", "10.9.0.0/24", "192.168.0.0/16", "fd09::/64", "10.1.0.2/32", "::/96", "10.99.0.0/16"]}
    reqs = []
    for k in range(nreq):
        lname = rng.choice(["l-http", "l-socks"])
        v6c = rng.random() < 0.2 and lname == "l-http" and "[::]" in sc.cfg["listeners"][0]["bind"]
        src = sc.client_ip(v6c)
        if v6c and rng.random() < 0.4:
            # an IPv6 client whose address contains an IPv4 one (v4-compatible ::/96): it is an IPv6 source, not that IPv4 host
            src = "::a63:%x" % rng.randint(1, 200)
        tk = rng.choice(["domain", "ipv4", "ipv6"])
        port = 2000 + k * 7 + rng.randint(0, 5)
        if tk == "domain":
            host = "o%d.%s" % (rng.randint(0, 30), rng.choice(TLDS))
        elif tk == "ipv4":
            host = rng.choice(["10.9.0.%d" % rng.randint(1, 200), "192.168.3.%d" % rng.randint(1, 9)])
        else:
            host = "fd09::%x" % rng.randint(1, 200)
        mapped = None
        mapped_name = False
        if tk == "ipv4" and lname == "l-http" and rng.random() < 0.25:
            # the client writes an IPv4 destination as an IPv4-mapped IPv6 literal: it is that IPv4 host which will be
            # contacted, so it is that host the rules must see (a rule on 10.9.0.0/24 must not be slipped this way)
            mapped = "::ffff:" + host
        udp = rng.random() < 0.2
        if tk == "ipv4" and mapped is None and not udp and rng.random() < 0.12:
            # the same literal where the protocol has room for a name: SOCKS5 address type 3, or a CONNECT authority
            # without brackets (host = everything before the last colon)
            mapped, mapped_name = "::ffff:" + host, True
        if tk != "domain" and rng.random() < 0.2:
            # a diverted (TPROXY) connection: no handshake, the target is the address the client dialled
            lname, udp, mapped, mapped_name = "l-tp", False, None, False
            if (":" in host) != (":" in src):
                src = sc.client_ip(":" in host)
        if udp and lname == "l-socks" and any(q["udp"] and q["listener"] == "l-socks" for q in reqs):
            udp = False  # SOCKS UDP associations all carry the target 0.0.0.0:0: keep at most one so it stays attributable
        feature = "UdpForward" if udp else "TcpForward"
        reqs.append({"k": k, "listener": lname, "src": src, "host": host, "port": port, "tk": tk, "udp": udp, "feature": feature, "mapped": mapped, "mapped_name": mapped_name})
        pool["src_ips"].append(src)
        pool["tgt_hosts"].append(host)
        pool["ports"].append(port)
    pool["src_ips"].append("10.1.9.9")
    pool["tgt_hosts"] += ["0.0.0.0", "nomatch.sim"]
    # rules
    nrules = rng.choice([0, 1, 2, 3, 4, 6, 8])
    rules = []
    for _ in range(nrules):
        tgt = rng.choice(targets)
        if rng.random() < 0.15:
            rules.append((None, None, tgt))
            sc.rule(tgt)
        else:
            t, f = gen_expr(rng, pool)
            rules.append((t, f, tgt))
            sc.rule(tgt, t)
        if rng.random() < 0.1 and rules:
            t, f, tgt = rules[-1]
            rules.append((t, f, tgt))
            sc.rule(tgt, t) if t is not None else sc.rule(tgt)
    # expected decisions
    for r in reqs:
        if r["udp"] and r["listener"] == "l-socks":
            thost, tport, ttype = "0.0.0.0", 0, "ipv4"
        else:
            thost, tport, ttype = r["host"], r["port"], r["tk"]
        ctx = Ctx(r["listener"], r["src"], 0, "ipv6" if ":" in r["src"] else "ipv4", thost, tport, ttype, r["feature"])
        decision = None
        for (t, f, tgt) in rules:
            if f is None:
                hit = True
            else:
                try:
                    hit = bool(f(ctx))
                except EvalError:
                    hit = False
            if hit:
                decision = tgt
                break
        if decision is None:
            r["expect"] = ("refuse", "norule")
        elif decision == "deny":
            r["expect"] = ("refuse", "deny")
        elif decision == "lb-tcp":
            r["expect"] = ("refuse", "unsupported") if r["udp"] else ("allow", "u0", "lb-tcp")
        elif decision == "us4":
            # IPv6 literals cannot be carried by SOCKS4: refused as well (C03 judges how)
            r["expect"] = ("refuse", "unsupported") if (r["udp"] or ":" in r["host"]) else ("allow", "us4", "us4")
        else:
            r["expect"] = ("allow", decision, decision)
        r["marker"] = ("MARK%02d-%08x" % (r["k"], rng.getrandbits(32))).encode().hex()
    # clients
    for r in reqs:
        li = listeners[r["listener"]]
        marker = bytes.fromhex(r["marker"])
        if r["udp"] and r["listener"] == "l-socks":
            ops = [send(rc.socks5_greeting([0]) + rc.socks5_request(3, "0.0.0.0", 0)), op("recv_n", n=2, label="method"), op("recv_socks5_reply", label="reply", on_fail="continue"),
                   op("recv_eof", timeout_ms=3000, label="rest", on_fail="continue")]
            proto = "socks5"
        else:
            early = marker
            if r["udp"]:
                # UDP over HTTP carries frames: the eager payload must be a well-formed frame holding the marker
                early = rc.rpfm_frame(0, r["host"], r["port"], marker)
            hs, proto = sc.client_handshake(li, r.get("mapped") or r["host"], r["port"], early=early, variant="5p" if r["listener"] == "l-socks" else None, udp=r["udp"])
            if r.get("mapped_name"):
                lit = r["mapped"].encode()
                for o in hs:
                    if o["op"] == "send":
                        b = bytes.fromhex(o["hex"])
                        b = b.replace(b"[" + lit + b"]", lit)
                        b = b.replace(rc.socks5_request(1, r["mapped"], r["port"]), rc.socks5_request(1, r["mapped"], r["port"], force_domain=True))
                        o["hex"] = b.hex()
            for o in hs:
                o["on_fail"] = "continue"
            ops = hs + [op("recv_eof", timeout_ms=3000, label="rest", on_fail="continue")]
        r["proto"] = proto
        dst_v6 = ":" in r["src"]
        sc.add_client("r%d" % r["k"], li, ops, start_ms=10 + rng.choice([0, 0, 1, 5]), src=r["src"], v6=dst_v6)
    sc.api_call("hist", "GET", "/api/history", start_ms=8000)
    for r in reqs:
        r.pop("f", None)
    sc.meta = {"cls": "rules%d/req%d" % (nrules, nreq), "cfgkey": "r%d/q%d/%s/%s" % (nrules, nreq, cname, hash(json.dumps(sc.cfg["rules"])) % 100000),
               "reqs": reqs, "nrules": len(rules), "keep_ops": True}
    sc.max_ms = 30000
    sc.cfg["timeouts"] = {"idle": 2, "udp": 2}
    return sc.plan(want_events=False)


def oracle(plan, out):
    R = G.Result(out)
    meta = plan["meta"]
    V = []

    def v(clause, text, **d):
        V.append(Violation(ID, clause, "C02/%s" % clause, text, d))

    if out["hung"] or not R.ok:
        if out["exit"] not in (0, None) and "rules" in (out["stderr"] or "") + (out["stdout"] or ""):
            # the generated rule list was rejected at load time: that is C18's business, not a routing violation
            return V
        v("crash", "process ended or hung: exit=%s %s" % (out["exit"], (out["stderr"] or "")[-300:]))
        return V
    for p in R.panics():
        v("panic", "panic at %s: %s" % (p.get("loc"), p.get("msg", "")))
    # what every upstream saw: list of (upstream actor, request head bytes, bytes after)
    seen = []
    for r in R.records:
        if r.get("label") == "upreq" and r.get("res") == "ok":
            conn = r["conn"]
            after = R.op_by_label(conn, "upbytes")
            seen.append((r["actor"], bytes.fromhex(r["hex"]), bytes.fromhex(after["hex"]) if after else b""))
    hist = R.history("hist")
    hrecs = []
    if hist and hist[0] == 200:
        try:
            hrecs = json.loads(hist[2])
        except ValueError:
            pass
    present = set(a["id"] for a in plan["actors"])
    from .c01 import reply_ok
    for r in meta["reqs"]:
        cid = "r%d" % r["k"]
        if cid not in present:
            continue
        if (R.connect(cid) or {}).get("connect") != "ok":
            continue
        marker = bytes.fromhex(r["marker"])
        if r["udp"] and r["listener"] == "l-socks":
            want_target = None
        else:
            want_target = (("[%s]:%d" % (r["host"], r["port"])) if ":" in r["host"] else "%s:%d" % (r["host"], r["port"])).encode()
        told_ok = reply_ok(r["proto"], R.op_by_label(cid, "reply"))
        # which upstreams carried this request
        mine = []
        for (actor, head, after) in seen:
            if actor == "up-us4":
                try:
                    cmd4, kind4, host4, port4, uid4, rest4 = rc.parse_socks4_request(head)
                except (rc.ParseError, ValueError):
                    continue
                h4 = host4.decode("latin1") if isinstance(host4, bytes) else str(host4)
                if want_target is not None and ("%s:%d" % (h4, port4)).encode() == want_target:
                    mine.append(actor)
                continue
            try:
                m, target, ver, hdrs, rest = rc.parse_http_request(head)
            except rc.ParseError:
                continue
            if want_target is not None and target == want_target:
                mine.append(actor)
            elif want_target is None and rc.header(hdrs, "proxy-protocol") == "udp" and target.startswith(b"0.0.0.0:"):
                mine.append(actor)
        leaked = [actor for (actor, head, after) in seen if marker in head or marker in after]
        exp = r["expect"]
        desc = "request %s (%s %s -> %s:%d %s)" % (cid, r["listener"], r["src"], r["host"], r["port"], r["feature"])
        if exp[0] == "allow":
            want_actor = "up-" + exp[1]
            if not mine:
                v("allowed-but-not-served", "%s should be served by %s (first matching rule) but no upstream was contacted; client told established=%s" % (desc, exp[2], told_ok))
            elif mine != [want_actor]:
                v("wrong-upstream", "%s should be served by %s but contacted %s" % (desc, exp[2], mine))
            if not told_ok and mine == [want_actor] and r["listener"] != "l-tp":
                v("allowed-but-refused", "%s was routed correctly but the client was not told 'established'" % desc)
            recs = [h for h in hrecs if h.get("source", "").startswith(r["src"] if ":" not in r["src"] else "[" + r["src"]) and h.get("listener") == r["listener"]]
            for h in recs:
                if h.get("connector") not in (exp[1], exp[2], None) and want_target is not None and h.get("target") == want_target.decode():
                    v("record-wrong-connector", "%s: history records connector %s, expected %s" % (desc, h.get("connector"), exp[2]))
        else:
            if mine:
                v("refused-but-contacted", "%s must be refused (%s) but upstream(s) %s were contacted" % (desc, exp[1], mine))
            if told_ok:
                v("refused-but-established", "%s must be refused (%s) but the client was told 'established'" % (desc, exp[1]))
            if leaked:
                v("payload-leaked", "%s was refused (%s) yet its payload marker reached %s" % (desc, exp[1], leaked))
    return V


def probes(plan, out):
    meta = plan["meta"]
    kinds = set(tuple(r["expect"][:2]) for r in meta["reqs"])
    return {"nontrivial": meta["nrules"] >= 2 and (len(kinds) > 1 or any(r["expect"][0] == "refuse" for r in meta["reqs"])),
            "refusals": sum(1 for r in meta["reqs"] if r["expect"][0] == "refuse"),
            "udp_requests": sum(1 for r in meta["reqs"] if r["udp"]),
            "unsupported_feature": sum(1 for r in meta["reqs"] if r["expect"][1] == "unsupported"),
            "runtime_error_filter": "to_integer" in plan["files"]["/sim/config.yaml"]}
