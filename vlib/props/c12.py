"""C12 — stream decoders are insensitive to how the network segments the bytes."""
from .. import gen as G, refcodec as rc
from ..core import Violation
from ..gen import Scenario, op, send, tag_header, TAG_XOR
from .c01 import reply_ok

ID = "C12"
BUDGET = {"quick": 40, "thorough": 600}
MAX_RUNS = {"quick": 8000, "thorough": 300000}
TECHNIQUE = "deterministic simulation: seeded/enumerated cut sets and truncation points on every handshake and frame stream the proxy reads, differential against an uncut twin tunnel in the same run"
RULE = ("plans: message kind (HTTP CONNECT head, SOCKS5 greeting/auth/request interactive or pipelined, SOCKS4, SOCKS4a, upstream HTTP/SOCKS4/SOCKS5 replies, "
        "RPFM frames on an inline UDP-over-HTTP stream) x delivery (every cut set for messages <= 12 bytes in thorough, random cut sets, one byte at a time, glued "
        "with trailing payload, two frames per segment, frame spanning k segments) or truncation at every offset followed by EOF; each cut tunnel runs next to an "
        "uncut twin; non-trivial = at least one cut fell strictly inside a message; distinct = (kind, cut set) x event-order hash")
RULE_MORE = "Later additions: IPv6 destinations and every BND.ADDR type; frames glued behind the CONNECT head and (kind up-rpfm) behind an upstream's 200; multi-byte SOCKS4 user ids."
LEVEL_TEXT = ("seeded exploration plus enumeration of short cut sets against the real decoders inside the real listeners/connectors: the cut tunnel must behave "
              "exactly like its uncut twin (same upstream request bytes, same payload delivered, same datagrams), and a message truncated by EOF must never "
              "cause an upstream contact or an emitted frame")
LEVEL_NOTE = "segment boundaries are controlled by the simulator (one write = one segment when chaos is off, 1 ms apart); trusts the reference codecs"
ASSUMPTIONS = []

KINDS = [("http", 3), ("socks5", 3), ("socks5p", 2), ("socks5auth", 2), ("socks4", 2), ("socks4a", 2), ("up-http", 2), ("up-socks5", 2), ("up-socks4", 1),
         ("rpfm", 3), ("up-rpfm", 2), ("trunc-http", 2), ("trunc-socks5", 2), ("trunc-socks4", 1), ("trunc-socks4a", 2), ("trunc-rpfm", 2)]


def wchoice(rng, items):
    return rng.choice([n for n, w in items for _ in range(w)])


def cutset(rng, n, tier, idx):
    """sizes of consecutive pieces for a message of n bytes"""
    if n <= 1:
        return []
    mode = rng.choice(["random", "random", "bytewise", "one", "two"])
    if mode == "bytewise":
        return [1] * (n - 1)
    if mode == "one":
        return [rng.randint(1, n - 1)]
    if n <= 12 and tier == "thorough":
        mask = idx % (1 << (n - 1))
        pts = [k + 1 for k in range(n - 1) if mask >> k & 1]
    else:
        k = rng.randint(1, min(n - 1, 6 if mode == "random" else 2))
        pts = sorted(rng.sample(range(1, n), k))
    sizes = []
    prev = 0
    for p in pts:
        sizes.append(p - prev)
        prev = p
    return sizes


def gen(rng, tier, i):
    sc = Scenario(rng)
    kind = wchoice(rng, KINDS)
    sc.net["chaos"] = {}
    sc.net["spawn_yield"] = rng.choice([0, 0, 300])
    sc.net["lock_yield"] = rng.choice([0, 0, 300])   # seeded scheduling points at the asynchronous locks
    sc.cfg["ioParams"] = {"bufferSize": rng.choice([1, 16, 4096, 65536]), "useSplice": False}
    oip, oport = sc.origin_ip(), sc.port()
    by_name = rng.random() < 0.4 or kind in ("socks4a", "trunc-socks4a")
    # IPv6 literal destinations (SOCKS5 ATYP 4, bracketed CONNECT authority) where the client's protocol can carry them
    v6 = not by_name and rng.random() < 0.35 and kind.replace("trunc-", "") in ("http", "socks5", "socks5p", "socks5auth", "up-http", "up-socks5")
    if v6:
        oip = sc.origin_ip(True)
    host = oip
    if by_name:
        host = "o%d.example.sim" % rng.randint(0, 99)
        sc.dns[host] = [oip]
    meta = {"kind": kind, "v6": v6, "keep_ops": True, "no_generic_fill_shrink": True}
    gap = rng.choice([1, 1, 2, 10])
    if kind in ("http", "socks5", "socks5p", "socks5auth", "socks4", "socks4a", "up-http", "up-socks5", "up-socks4") or kind.startswith("trunc-") and kind != "trunc-rpfm":
        base = kind.replace("trunc-", "")
        lk = {"http": "http", "socks5": "socks", "socks5p": "socks", "socks5auth": "socksauth", "socks4": "socks", "socks4a": "socks",
              "up-http": "http", "up-socks5": "socks", "up-socks4": "http"}[base]
        if lk == "http":
            li = sc.add_http_listener("l")
        elif lk == "socksauth":
            li = sc.add_socks_listener("l", auth={"required": True, "users": [{"username": "alice", "password": "s3cret"}]})
        else:
            li = sc.add_socks_listener("l")
        if base.startswith("up-"):
            ck = {"up-http": "http", "up-socks5": "socks5", "up-socks4": "socks4"}[base]
            ci = sc.add_http_connector("u") if ck == "http" else sc.add_socks_connector("u", version=5 if ck == "socks5" else 4)
        else:
            ci = sc.add_direct("d")
        sc.rule(ci["name"])
        variant = {"socks5": "5", "socks5p": "5p", "socks5auth": rng.choice(["5", "5p"]), "socks4": "4", "socks4a": "4", "up-socks5": "5"}.get(base)
        creds = ("alice", "s3cret") if base == "socks5auth" else None
        if base in ("socks4", "socks4a") and rng.random() < 0.5:
            # a user id with multi-byte characters: a segment boundary can fall inside one of them
            creds = (rng.choice(["j\u00fcrgen", "\u65e5\u672c", "a\U0001f600b", "\u00e9"]).encode("utf-8"), "")
        target_host = oip if base == "socks4" else host
        tunnels = []
        cuts_desc = []
        for twin in ("plain", "cut"):
            if kind.startswith("trunc-") and twin == "plain":
                continue
            seed = rng.getrandbits(60) | 1
            c2s, s2c = rng.choice([0, 1, 300, 5000]), rng.choice([0, 1, 300, 5000])
            hdr = tag_header(seed, c2s, s2c)
            glue = rng.random() < 0.5 and not kind.startswith("trunc-")
            hs, proto = sc.client_handshake(li, target_host, oport, early=hdr if glue else b"", variant=variant, creds=creds)
            if kind.startswith("trunc-"):
                # cut the (pipelined) handshake short at offset k, then end the direction
                sends = [o for o in hs if o["op"] == "send"]
                whole = b"".join(bytes.fromhex(o["hex"]) for o in sends)
                k = rng.randint(0, len(whole) - 1) if tier != "thorough" else i % len(whole)
                # interactive SOCKS5 cannot be truncated across round trips without the replies: pipeline it
                ops = [send(whole[:k])] if k else []
                ops += [op("shutdown"), op("recv_eof", timeout_ms=20000, label="after", keep=4096)]
                sc.add_client("t-cut", li, ops, start_ms=10)
                meta.update({"trunc_at": k, "whole_len": len(whole), "proto": proto})
                cuts_desc = [k]
                continue
            if twin == "cut" and not base.startswith("up-"):
                for o in hs:
                    if o["op"] == "send":
                        n = len(bytes.fromhex(o["hex"]))
                        o["cuts"] = cutset(rng, n if not glue else n, tier, i)
                        o["gap_ms"] = gap
                        cuts_desc.append(o["cuts"])
            wops = ([] if glue else [send(hdr)]) + [op("send", fill=[seed, c2s]), op("shutdown")]
            rops = [op("expect", fill=[seed ^ TAG_XOR, s2c], timeout_ms=60000, label="s2c"), op("recv_eof", timeout_ms=60000, label="s2c-eof")]
            cid = "t-" + twin
            sc.add_client(cid, li, hs + [op("par", w=wops, r=rops)], start_ms=10 if twin == "plain" else 200)
            tunnels.append({"cid": cid, "seed": seed, "c2s": c2s, "s2c": s2c, "proto": proto, "twin": twin})
        serve = [op("serve_tagged", timeout_ms=60000)]
        if ci["kind"] == "direct":
            sc.add_origin(("[%s]:%d" if v6 else "%s:%d") % (oip, oport), default_ops=serve, oid="origin")
        else:
            # conn 0 = plain twin (uncut replies), conn 1 = cut twin (replies cut)
            ratyp = rng.choice([1, 1, 4, 4, 3])   # address type of the upstream's BND.ADDR (SOCKS5 replies)
            hs0 = sc.upstream_handshake(ci, reply_atyp=ratyp)
            hs1 = sc.upstream_handshake(ci, reply_atyp=ratyp)
            for o in hs1:
                if o["op"] == "send":
                    n = len(bytes.fromhex(o["hex"]))
                    o["cuts"] = cutset(rng, n, tier, i)
                    o["gap_ms"] = gap
                    cuts_desc.append(o["cuts"])
            ci["server"]["conns"] = [hs0 + serve, hs1 + serve]
        meta.update({"tunnels": tunnels, "cuts": cuts_desc, "upstream": ci["kind"] != "direct"})
    elif kind == "up-rpfm":
        # frames from an upstream HTTP proxy on the inline channel, the first ones possibly in the same segment as its "200"
        li = sc.add_http_listener("l")
        ci = sc.add_http_connector("u")
        sc.rule("u")
        nfr = rng.randint(1, 5)
        frames = [bytes([0x40 + k]) + rng.randbytes(rng.choice([0, 1, 10, 200, 1400])) for k in range(nfr)]
        target = "%s:%d" % (oip, oport)
        req = rc.http_connect(target, [("Host", target), ("Proxy-Protocol", "udp")])
        yes = b"HTTP/1.1 200 OK\r\nSession-Id: %d\r\n\r\n" % rng.choice([0, 7])
        stream = yes + b"".join(rc.rpfm_frame(0, oip, oport, b) for b in frames)
        cuts = cutset(rng, len(stream), tier, i) if rng.random() < 0.6 else rng.choice([[], [len(yes) + rng.randint(1, 30)], [len(yes) - 1]])
        if len(cuts) > 300:
            gap = 1
        ci["server"]["default_ops"] = [op("recv_http_head", label="upreq"), send(stream, cuts=cuts, gap_ms=gap, timeout_ms=600000), op("recv_eof", timeout_ms=600000, on_fail="continue")]
        rops = [op("recv_rpfm", timeout_ms=600000, label="echo%d" % k) for k in range(nfr)]
        sc.add_client("t-cut", li, [send(req), op("recv_http_head", label="reply")] + rops + [op("shutdown")], start_ms=10)
        meta.update({"frames": [f.hex() for f in frames], "cuts": [cuts]})
    else:
        # RPFM frames on an inline UDP-over-HTTP stream
        li = sc.add_http_listener("l")
        sc.add_direct("d")
        sc.rule("d")
        sc.actors.append({"essential": True, "kind": "udp", "id": "uorigin", "bind": "%s:%d" % (oip, oport), "echo": True, "ops": []})
        nfr = rng.randint(1, 5)
        frames = []
        for k in range(nfr):
            body = bytes([0x40 + k]) + rng.randbytes(rng.choice([0, 1, 10, 200, 1400]))
            frames.append(body)
        target = "%s:%d" % (oip, oport)
        req = rc.http_connect(target, [("Host", target), ("Proxy-Protocol", "udp")])
        stream = b"".join(rc.rpfm_frame(0, oip, oport, b) for b in frames)
        if kind == "trunc-rpfm":
            k = rng.randint(0, len(stream) - 1)
            # the frames that are complete before the cut must be delivered, the partial one never
            done = 0
            complete = []
            for b in frames:
                fl = len(rc.rpfm_frame(0, oip, oport, b))
                if done + fl <= k:
                    complete.append(b)
                    done += fl
                else:
                    break
            tcuts = cutset(rng, k, tier, i) if k > 1 else []
            if len(tcuts) > 300:
                gap = 1
            ops = [send(req), op("recv_http_head", label="reply"), send(stream[:k], cuts=tcuts, gap_ms=gap, timeout_ms=600000),
                   op("sleep", ms=200), op("shutdown"), op("recv_eof", timeout_ms=20000, label="after", keep=65536)]
            sc.add_client("t-cut", li, ops, start_ms=10)
            meta.update({"frames": [f.hex() for f in complete], "all_frames": [f.hex() for f in frames], "trunc_at": k})
        else:
            cuts = cutset(rng, len(stream), tier, i)
            if len(cuts) > 300:
                gap = 1   # byte-wise delivery of a long stream: keep the whole transfer well inside every timeout
            # read as many reply frames as we sent (the origin echoes), then finish
            rops = [op("recv_rpfm", timeout_ms=600000, label="echo%d" % k) for k in range(nfr)]
            if rng.random() < 0.4:
                # the client does not wait for the "200": its first frames follow the request head, possibly in the same segment
                gcuts = rng.choice([[], [len(req)], [len(req) + rng.randint(1, 40)], [len(req) - 1], sorted(set([len(req) + c for c in cuts]))])
                ops = [op("par", w=[send(req + stream, cuts=gcuts, gap_ms=gap, timeout_ms=600000), op("sleep", ms=500), op("shutdown")], r=[op("recv_http_head", label="reply")] + rops)]
                cuts = gcuts
            else:
                ops = [send(req), op("recv_http_head", label="reply"), op("par", w=[send(stream, cuts=cuts, gap_ms=gap, timeout_ms=600000), op("sleep", ms=500), op("shutdown")], r=rops)]
            sc.add_client("t-cut", li, ops, start_ms=10)
            meta.update({"frames": [f.hex() for f in frames], "cuts": [cuts]})
    meta["cls"] = kind
    meta["cfgkey"] = "%s/%s" % (kind, str(meta.get("cuts", meta.get("trunc_at")))[:80])
    sc.meta = meta
    sc.max_ms = 900000
    sc.cfg["timeouts"] = {"idle": 30, "udp": 30}
    return sc.plan(want_events=False)


def oracle(plan, out):
    R = G.Result(out)
    meta = plan["meta"]
    kind = meta["kind"]
    V = []

    def v(clause, text, **d):
        V.append(Violation(ID, clause, "C12/%s/%s" % (clause, kind), text, d))

    if out["hung"] or not R.ok:
        v("crash", "process ended or hung: exit=%s %s" % (out["exit"], out["stderr"][-300:]))
        return V
    for p in R.panics():
        v("panic", "panic at %s: %s" % (p.get("loc"), p.get("msg", "")))
    if kind.startswith("trunc-") and kind != "trunc-rpfm":
        contacted = len(R.accepts("origin")) + len(R.accepts("up-u"))
        if contacted:
            v("truncated-proceeds", "the %s handshake was cut by EOF at byte %d of %d, yet the proxy contacted an upstream (%d connections): a request was fabricated from a partial message" % (
                meta["proto"], meta["trunc_at"], meta["whole_len"], contacted))
        return V
    if kind in ("rpfm", "trunc-rpfm", "up-rpfm"):
        rep = R.op_by_label("t-cut", "reply")
        if rep is None or rep["res"] != "ok" or not bytes.fromhex(rep["hex"]).startswith(b"HTTP/1.1 200"):
            v("not-established", "UDP-over-HTTP association was not established: %s" % (rep and rep.get("hex", "")[:60]))
            return V
        got = [(r["len"], r["hash"]) for r in R.records if r.get("actor") == "uorigin" and r.get("udp") == "recv"]
        want = [bytes.fromhex(h) for h in meta["frames"]]
        if kind != "up-rpfm" and got != [(len(w), rc.fnv64(w)) for w in want]:
            v("frames-differ", "origin received %d datagrams (lengths %s), expected %d (lengths %s) (cut set %s)" % (
                len(got), [g[0] for g in got][:8], len(want), [len(w) for w in want][:8], str(meta.get("cuts", meta.get("trunc_at")))[:200]))
        if kind in ("rpfm", "up-rpfm"):
            for k, w in enumerate(want):
                e = R.op_by_label("t-cut", "echo%d" % k)
                if e is None or e["res"] != "ok":
                    v("reply-frame-missing", "echo frame %d did not come back: %s" % (k, e and e["res"]))
                    break
                try:
                    _, _, _, _, body, rest = rc.parse_rpfm(bytes.fromhex(e["hex"]))
                    if e["n"] > 4096:
                        continue
                    if body != w or rest:
                        v("reply-frame-differs", "echo frame %d carries %s, expected %s" % (k, body[:16].hex(), w[:16].hex()))
                except rc.ParseError as ex:
                    v("reply-frame-malformed", "echo frame %d: %s" % (k, ex))
        return V
    # twin tunnels
    served = {}
    for r in R.records:
        if r.get("op") == "serve_tagged" and "tag_seed" in r:
            served[r["tag_seed"]] = r
    upreq = {}
    for t in meta["tunnels"]:
        cid = t["cid"]
        if not reply_ok(t["proto"], R.op_by_label(cid, "reply")):
            rep = R.op_by_label(cid, "reply")
            v("not-established" if t["twin"] == "cut" else "baseline-not-established",
              "%s twin (%s) was not established: %s (cuts %s)" % (t["twin"], t["proto"], rep and (rep["res"] + ":" + rep.get("hex", "")[:60]), meta["cuts"]))
            continue
        e = R.op_by_label(cid, "s2c")
        x = R.op_by_label(cid, "s2c-eof")
        if e is None or e["res"] != "ok" or x is None or x["res"] != "eof@0":
            v("payload-differs", "%s twin: origin->client payload: %s / %s" % (t["twin"], e and e["res"], x and x["res"]))
        s = served.get(t["seed"])
        if s is None:
            v("payload-differs", "%s twin: the bytes behind the handshake never reached the origin as sent (cuts %s)" % (t["twin"], meta["cuts"]))
            continue
        e = R.op_by_index(s["conn"], s["i"] + "r0")
        x = R.op_by_index(s["conn"], s["i"] + "r1")
        if e is None or e["res"] != "ok" or x is None or x["res"] != "eof@0":
            v("payload-differs", "%s twin: client->origin payload: %s / %s" % (t["twin"], e and e["res"], x and x["res"]))
        u = R.op_by_label(s["conn"], "upreq")
        if u is not None:
            upreq[t["twin"]] = u["hex"]
    if len(upreq) == 2 and upreq["plain"] != upreq["cut"]:
        v("parsed-message-differs", "upstream request differs between the uncut and the cut twin: %s vs %s" % (upreq["plain"][:120], upreq["cut"][:120]))
    return V


def probes(plan, out):
    meta = plan["meta"]
    cuts = meta.get("cuts") or []
    inside = any(c for c in cuts if c) or meta.get("trunc_at") is not None
    return {"nontrivial": bool(inside), "truncation": meta["kind"].startswith("trunc"), "rpfm": "rpfm" in meta["kind"], "upstream_reply_cut": meta["kind"].startswith("up-"),
            "bytewise": any(c and all(x == 1 for x in c) for c in cuts if isinstance(c, list))}
