"""C11 — UDP frame fragmentation/reassembly is exact under reordering and duplication."""
import itertools
import struct

from .. import gen as G, refcodec as rc
from ..core import Violation

ID = "C11"
BUDGET = {"quick": 40, "thorough": 600}
MAX_RUNS = {"quick": 1500, "thorough": 100000}
TECHNIQUE = "deterministic simulation (component lane): the real make_fragments/reassemble/timer driven over a seeded lossy, duplicating, reordering, delaying channel on the virtual clock, against a reference reassembler"
RULE = ("each run executes 40 explicit scenarios in one process: frames (body 0..65535, address none/IPv4/IPv6/domain) fragmented by the real make_fragments at MTUs from 5 up "
        "(biased to small values and quinn's), ids started near the 65535 wrap, channel schedules with permutation, duplication before and after completion, interleaving "
        "of several frames, loss, delays straddling the 5 s reassembly timeout with 1 s timer ticks, hostile fragments (short, seq>=total, total=0, total>=128, "
        "inconsistent totals), id reuse after abandoned, after completed and during pending groups (crafted by an independent fragmenter), oversize frames, >65536 frames (thorough), "
        "all permutations x duplications of <= 6 fragments (thorough); non-trivial = a frame of >= 2 fragments met reordering, duplication, loss or a timer; "
        "distinct = distinct scenario schedules")
RULE_MORE = 'Later additions: id reuse while a group with that id is pending and after one has completed (crafted by the reference fragmenter); timeouts with several groups pending.'
LEVEL_TEXT = ("seeded exploration plus enumeration of small schedules against the real Fragments code inside the binary: safety (only sent frames, at most once), liveness "
              "(exactly once when every fragment arrives in time and the id is not reused concurrently), isolation (malformed or abandoned groups never disturb other "
              "frames or later frames that reuse an id), no panic on any fragment header")
LEVEL_NOTE = "the receiving loop of quic_frames_thread is re-created around the real reassemble()/timer() with 1 s ticks on the virtual clock; the whole-system complement is C10's quic-dgram paths through real quinn"
ASSUMPTIONS = ["liveness is only demanded when the last fragment arrives <= 4 s after the first (timeout 5 s, tick 1 s)"]
REAL = "common::fragment::Fragments<Frame> (make_fragments, reassemble, timer), common::frames::Frame encode/decode, inside the real binary on the virtual clock"
STUB = "the QUIC connection (fragments are handed over directly); the schedule of arrivals and timer ticks is the simulator's"

NSCEN = 40
MTUS = [5, 5, 6, 7, 8, 9, 12, 16, 33, 64, 500, 1162, 1200, 1452]


def addr_str(kind, rng):
    if kind == "none":
        return ""
    if kind == "ipv4":
        return "10.%d.%d.%d:%d" % (rng.randint(0, 255), rng.randint(0, 255), rng.randint(1, 254), rng.randint(1, 65535))
    if kind == "ipv6":
        return "[fd00::%x]:%d" % (rng.randint(1, 65535), rng.randint(1, 65535))
    return "h%d.example.sim:%d" % (rng.randint(0, 999), rng.randint(1, 65535))


def header_len(addr):
    if not addr:
        return 12
    if addr.startswith("["):
        return 12 + 20
    host = addr.rsplit(":", 1)[0]
    try:
        import ipaddress
        ipaddress.ip_address(host)
        return 12 + 8
    except ValueError:
        return 12 + 2 + len(host) + 2


def nfrags(total_len, mtu):
    size = mtu - 4
    return -(-total_len // size)


def crafted(rng, fid, mtu, blen):
    """a valid frame fragmented by the independent reference fragmenter with a chosen id"""
    body = rng.randbytes(blen)
    sid = rng.getrandbits(32)
    host, port = "10.7.7.%d" % rng.randint(1, 250), rng.randint(1, 65535)
    raw = rc.rpfm_frame(sid, host, port, body)
    frs = rc.quic_fragments(raw, mtu, fid)
    desc = {"sid": sid, "addr": "%s:%d" % (host, port), "len": blen, "hash": rc.fnv64(body)}
    return frs, desc


def scenario(rng, tier, idx):
    cls = rng.choice(["perm", "perm", "perm", "loss", "timeout", "hostile", "hostile", "reuse-abandoned", "reuse-completed", "reuse-pending", "wrap", "oversize", "dup-after"])
    if tier == "thorough" and idx % 7 == 0:
        cls = "enum"
    mtu = rng.choice(MTUS)
    sc = {"cls": cls, "mtu": mtu, "timeout_s": 5, "frames": [], "events": [], "crafted": [], "start_id": rng.choice([0, 1, 1000, 65533, 65534, 65535, rng.randint(0, 65535)])}
    if cls == "wrap":
        sc["start_id"] = rng.choice([65533, 65534, 65535])
    nfr = rng.randint(1, 5) if cls not in ("oversize", "enum") else 1
    for k in range(nfr):
        ak = rng.choice(["none", "ipv4", "ipv6", "domain"])
        addr = addr_str(ak, rng)
        hl = header_len(addr)
        maxbody = max(0, min(65535, 126 * (mtu - 4) - hl))
        blen = rng.choice([0, 1, max(0, mtu - 4 - hl), max(0, 2 * (mtu - 4) - hl), 100, 1000, 9000, 65535, rng.randint(0, 3000)])
        if cls == "oversize":
            blen = min(65535, rng.choice([128, 129, 200, 256, 257, 300]) * (mtu - 4))
        elif cls == "enum":
            want = rng.randint(2, 6)
            sc["mtu"] = mtu = max(mtu, 40) if hl + 1 > (mtu - 4) else mtu
            blen = max(0, want * (mtu - 4) - hl - rng.randint(0, mtu - 5))
        else:
            blen = min(blen, maxbody)
        sc["frames"].append({"len": blen, "seed": rng.getrandbits(40) | 1, "sid": rng.getrandbits(32), "addr": addr})
    # expected fragment counts
    counts = [max(0, nfrags(header_len(f["addr"]) + f["len"], sc["mtu"])) for f in sc["frames"]]
    sc["counts"] = counts
    ev = []
    pairs = [(i, j) for i, c in enumerate(counts) for j in range(min(c, 300))]
    if cls == "enum":
        c = counts[0]
        perms = list(itertools.permutations(range(c))) if c <= 5 else None
        order = list(perms[idx // 7 % len(perms)]) if perms else rng.sample(range(c), c)
        # one duplicate at a seeded position (before or after completion)
        dup = rng.randrange(c)
        pos = rng.randint(0, c)
        order = order[:pos] + [dup] + order[pos:] + ([rng.randrange(c)] if rng.random() < 0.5 else [])
        ev = [["d", 0, j] for j in order]
    elif cls in ("perm", "wrap", "oversize"):
        rng.shuffle(pairs)
        ev = [["d", i, j] for i, j in pairs]
        for _ in range(rng.randint(0, 3)):
            if ev:
                k = rng.randrange(len(ev))
                ev.insert(rng.randint(0, k), list(ev[k]))   # duplicate before the original arrives
        if rng.random() < 0.5:
            for _ in range(rng.randint(1, 3)):
                ev.insert(rng.randint(0, len(ev)), ["sleep", rng.choice([1, 300, 999, 1000])])
    elif cls == "dup-after":
        rng.shuffle(pairs)
        ev = [["d", i, j] for i, j in pairs]
        # replay every fragment of one frame after everything was delivered
        i = rng.randrange(len(counts))
        late = [["d", i, j] for j in range(min(counts[i], 300))]
        rng.shuffle(late)
        ev += ([["sleep", rng.choice([1, 1500, 7000])]] if rng.random() < 0.5 else []) + late
    elif cls == "loss":
        rng.shuffle(pairs)
        lost = set(rng.sample(pairs, min(len(pairs), rng.randint(1, 3)))) if pairs else set()
        ev = [["d", i, j] for i, j in pairs if (i, j) not in lost]
        sc["lost"] = sorted(lost)
        if rng.random() < 0.5:
            ev.append(["sleep", 8000])
    elif cls == "timeout":
        rng.shuffle(pairs)
        ev = [["d", i, j] for i, j in pairs]
        for _ in range(rng.randint(1, 3)):
            ev.insert(rng.randint(0, len(ev)), ["sleep", rng.choice([900, 2500, 3900, 4100, 5100, 6500])])
    elif cls == "hostile":
        rng.shuffle(pairs)
        ev = [["d", i, j] for i, j in pairs]
        for _ in range(rng.randint(1, 6)):
            fid = rng.choice([sc["start_id"], (sc["start_id"] + 1) & 0xffff, rng.randint(0, 65535), 40000])
            k = rng.randrange(9)
            if k == 0:
                raw = rng.randbytes(rng.randint(0, 3))
            elif k == 1:
                raw = struct.pack(">HBB", fid, 0, 0) + rng.randbytes(rng.randint(0, 20))
            elif k == 2:
                raw = struct.pack(">HBB", fid, rng.choice([128, 129, 200, 255]), rng.choice([0, 1, 127, 200])) + rng.randbytes(8)
            elif k == 3:
                t = rng.randint(2, 127)
                raw = struct.pack(">HBB", fid, t, rng.randint(t, 255)) + rng.randbytes(8)
            elif k == 4:
                raw = struct.pack(">HBB", 40000, 3, 0) + rng.randbytes(5)      # first of a group that never completes
            elif k == 5:
                raw = struct.pack(">HBB", 40000, 7, 5) + rng.randbytes(5)      # inconsistent total for that id
            elif k == 6:
                raw = struct.pack(">HBB", fid, 1, 0) + rng.randbytes(rng.randint(0, 30))   # single-fragment junk "frame"
            elif k == 7:
                raw = struct.pack(">HBB", 40001, 2, 0) + b"RPFM" + rng.randbytes(3)
            else:
                raw = struct.pack(">HBB", 40002, 127, 126) + rng.randbytes(4)
            ev.insert(rng.randint(0, len(ev)), ["raw", raw.hex()])
        if rng.random() < 0.4:
            ev.insert(rng.randint(0, len(ev)), ["sleep", rng.choice([1000, 6000])])
    elif cls == "reuse-abandoned":
        # an abandoned group occupies the id the next real frame will get; after timeout + 2 s the frame must pass intact
        fid = sc["start_id"]
        ev.append(["raw", (struct.pack(">HBB", fid, 3, rng.choice([0, 1, 2])) + rng.randbytes(6)).hex()])
        ev.append(["sleep", rng.choice([7000, 7500, 9000])])
        rng.shuffle(pairs)
        ev += [["d", i, j] for i, j in pairs]
    elif cls == "reuse-completed":
        # a crafted frame with the id of a real frame completes first; then (within or after the timeout) the real frame arrives
        fid = sc["start_id"]
        m = max(sc["mtu"], 40)
        sc["mtu"] = m
        counts = [max(0, nfrags(header_len(f["addr"]) + f["len"], m)) for f in sc["frames"]]
        sc["counts"] = counts
        pairs = [(i, j) for i, c in enumerate(counts) for j in range(min(c, 300))]
        frs, desc = crafted(rng, fid, m, rng.choice([10, 100, 3 * m]))
        sc["crafted"].append(desc)
        order = list(range(len(frs)))
        rng.shuffle(order)
        ev += [["raw", frs[j].hex()] for j in order]
        ev.append(["sleep", rng.choice([0, 100, 2000, 4500, 5500, 8000])])
        # the real frame with the same id: make its fragments arrive with a pause in between
        mine = [p for p in pairs if p[0] == 0]
        rest = [p for p in pairs if p[0] != 0]
        rng.shuffle(mine)
        half = len(mine) // 2
        ev += [["d", i, j] for i, j in mine[:half]] + [["sleep", rng.choice([0, 600, 1200, 3000])]] + [["d", i, j] for i, j in mine[half:]]
        ev += [["d", i, j] for i, j in rest]
    elif cls == "reuse-pending":
        # frame 0 is only partly there (its group is pending) when a complete frame with the same id but another fragment
        # count arrives (a sender whose counter wrapped, or a confused one): the two must never be merged into a frame that
        # nobody sent; later the rest of frame 0 may arrive
        fid = sc["start_id"]
        m = max(sc["mtu"], 40)
        sc["mtu"] = m
        if sc["frames"][0]["len"] < 2 * m:
            sc["frames"][0]["len"] = rng.choice([2 * m, 3 * m + 5, 5 * m])
        counts = [max(0, nfrags(header_len(f["addr"]) + f["len"], m)) for f in sc["frames"]]
        sc["counts"] = counts
        pairs = [(i, j) for i, c in enumerate(counts) for j in range(min(c, 300))]
        c0 = counts[0]
        other = rng.choice([c0 + 1, c0 + 2, 2 * c0, max(2, c0 - 1)])
        frs, desc = crafted(rng, fid, m, min(60000, max(1, other * (m - 4) - 20 - rng.randint(0, m - 5))))
        sc["crafted"].append(desc)
        mine = [p for p in pairs if p[0] == 0]
        rest = [p for p in pairs if p[0] != 0]
        first = [mine[0]] + rng.sample(mine[1:], rng.randint(0, max(0, len(mine) - 2)))
        later = [p for p in mine if p not in first]
        ev += [["d", i, j] for i, j in first]
        ev.append(["sleep", rng.choice([0, 100, 2000])])
        order = list(range(len(frs)))
        if rng.random() < 0.5:
            rng.shuffle(order)
        ev += [["raw", frs[j].hex()] for j in order]
        if rng.random() < 0.6:
            ev.append(["sleep", rng.choice([0, 500])])
            ev += [["d", i, j] for i, j in later]
        ev += [["d", i, j] for i, j in rest]
    sc["events"] = ev
    return sc


def gen(rng, tier, i):
    scen = [scenario(rng, tier, i * NSCEN + k) for k in range(NSCEN)]
    if tier == "thorough" and i % 50 == 0:
        scen.append({"cls": "bulk", "mtu": 1200, "timeout_s": 5, "frames": [], "events": [["bulk", 66000, 20]], "crafted": [], "start_id": rng.randint(0, 65535), "counts": []})
    elif i % 20 == 0:
        scen.append({"cls": "bulk", "mtu": 1200, "timeout_s": 5, "frames": [], "events": [["bulk", 700, 20]], "crafted": [], "start_id": 65000 + rng.randint(0, 500), "counts": []})
    classes = sorted(set(s["cls"] for s in scen))
    return {"lane": "component", "component": {"kind": "fragments", "scenarios": scen}, "actors": [], "files": {}, "argv": ["-c", "/sim/none.yaml", "-l", "warn"],
            "meta": {"cls": "fragments", "cfgkey": "-".join(classes), "n": len(scen)}, "want_events": False}


def judge(sc, res):
    """-> list of (clause, signature-suffix, text)"""
    out = []
    cls = sc["cls"]
    for p in res.get("panics", []):
        where = p.get("where")
        kind = cls
        if where == "reassemble-raw":
            raw = bytes.fromhex(p.get("hex", ""))
            if len(raw) < 4:
                kind = "short-fragment"
            else:
                fid, total, seq = struct.unpack(">HBB", raw[:4])
                kind = "total=0" if total == 0 else ("total>=128" if total >= 128 else ("seq>=total" if seq >= total else "other"))
        elif where in ("make_fragments", "bulk"):
            kind = "id-wrap" if cls in ("wrap", "bulk") or sc.get("start_id", 0) >= 65530 else ("oversize" if cls == "oversize" else cls)
        out.append(("panic", "%s/%s" % (where, kind), "panic in %s (%s): %s" % (where, kind, p)))
    if cls == "bulk":
        n = sc["events"][0][1]
        bad = [d for d in res.get("delivered", []) if "bulk_mismatch" in d or "bulk_missing" in d]
        if bad:
            out.append(("bulk-frame-lost", "wrap", "of %d consecutive frames across the id wrap, %d were not delivered intact, first: %s" % (n, len(bad), bad[0])))
        return out
    sent = list(res.get("sent", [])) + list(sc.get("crafted", []))
    keyf = lambda d: (d["sid"], d.get("addr") or None, d["len"], d["hash"])
    sent_keys = [keyf(d) for d in sent]
    counts = res.get("fragment_counts", [])
    deliveries = {}
    for d in res.get("delivered", []):
        k = keyf(d)
        if k not in sent_keys:
            out.append(("foreign-frame", cls, "a frame was delivered that was never sent: %s" % d))
            continue
        deliveries[k] = deliveries.get(k, 0) + 1
    for k, n in deliveries.items():
        if n > 1:
            why = "duplicate-fragments"
            out.append(("delivered-twice", why, "frame %s was delivered %d times" % (k, n)))
    # liveness for real frames
    ids_used = {}
    sid0 = sc["start_id"]
    for i in range(len(sc["frames"])):
        ids_used[i] = (sid0 + i) & 0xffff
    raw_ids = []
    t = 0
    arrivals = {}
    raw_times = []
    for ev in sc["events"]:
        if ev[0] == "sleep":
            t += ev[1]
        elif ev[0] == "d":
            arrivals.setdefault(ev[1], []).append((t, ev[2]))
        elif ev[0] == "raw":
            raw = bytes.fromhex(ev[1])
            if len(raw) >= 4:
                raw_times.append((t, struct.unpack(">H", raw[:2])[0]))
    for i, f in enumerate(sc["frames"]):
        if i >= len(counts) or i >= len(res.get("sent", [])):
            continue
        c = counts[i]
        k = keyf(res["sent"][i])
        arr = arrivals.get(i, [])
        got = set(j for (_, j) in arr)
        complete = c > 0 and got == set(range(c))
        if c > 127:
            # unrepresentable: nothing or the right thing, never something else (checked above)
            continue
        if not complete:
            if deliveries.get(k, 0) > 0:
                out.append(("delivered-incomplete", cls, "frame %d was delivered although fragments %s never arrived" % (i, sorted(set(range(c)) - got)[:5])))
            continue
        t_first = min(x for x, _ in arr)
        # time by which every distinct fragment had arrived at least once
        seen = set()
        t_done = None
        for (x, j) in sorted(arr, key=lambda a: a[0]):
            seen.add(j)
            if len(seen) == c:
                t_done = x
                break
        in_time = t_done is not None and t_done - t_first <= 4000
        fid = ids_used[i]
        # disturbed by another user of the same id around that time?
        others = [x for (x, rid) in raw_times if rid == fid]
        clash_ids = [j for j in ids_used if j != i and ids_used[j] == fid]
        if deliveries.get(k, 0) == 0 and in_time and not clash_ids:
            if not others:
                out.append(("frame-lost", cls, "frame %d (%d fragments, mtu %d): every fragment arrived within %d ms and nothing else used id %d, yet it was not delivered" % (i, c, sc["mtu"], t_done - t_first, fid)))
            elif cls == "reuse-abandoned" and all(t_first - x >= 7000 for x in others):
                out.append(("frame-lost", "after-abandoned-group", "frame %d reuses id %d %.1f s after an abandoned group: not delivered" % (i, fid, (t_first - max(others)) / 1000.0)))
            elif cls == "reuse-completed":
                out.append(("frame-lost", "after-completed-group", "frame %d reuses id %d after another frame with that id had completed at t=%s ms; its fragments arrived at %s: not delivered" % (
                    i, fid, sorted(set(others))[:3], sorted(set(x for x, _ in arr))[:4])))
    return out


def oracle(plan, out):
    V = []
    res = (out["result"] or {}).get("extra", {})
    if out["hung"] or out["result"] is None:
        V.append(Violation(ID, "crash", "C11/crash", "component run ended or hung: exit=%s %s" % (out["exit"], (out["stderr"] or "")[-400:])))
        return V
    results = res.get("results", [])
    scen = plan["component"]["scenarios"]
    for k, (sc, r) in enumerate(zip(scen, results)):
        for clause, suffix, text in judge(sc, r):
            V.append(Violation(ID, clause, "C11/%s/%s" % (clause, suffix), "scenario %d (%s, mtu %d, start id %d): %s" % (k, sc["cls"], sc["mtu"], sc["start_id"], text)))
    return V


def shrink_candidates(plan):
    """keep only one scenario; then drop events of it"""
    import copy
    scen = plan["component"]["scenarios"]
    if len(scen) > 1:
        for k in range(len(scen)):
            p = copy.deepcopy(plan)
            p["component"]["scenarios"] = [scen[k]]
            yield "only-scenario-%d" % k, p
    else:
        ev = scen[0]["events"]
        for k in range(len(ev)):
            p = copy.deepcopy(plan)
            del p["component"]["scenarios"][0]["events"][k]
            yield "drop-event-%d" % k, p


def probes(plan, out):
    scen = plan["component"]["scenarios"]
    nt = sum(1 for s in scen if any(c >= 2 for c in s.get("counts", [])) and s["cls"] != "bulk")
    return {"nontrivial": nt > 0, "scenarios": len(scen), "multi_fragment_scenarios": nt, "hostile": sum(1 for s in scen if s["cls"] == "hostile"),
            "wrap": sum(1 for s in scen if s["cls"] in ("wrap", "bulk")), "timer_straddle": sum(1 for s in scen if s["cls"] == "timeout")}
