"""C13 — idle tunnels are closed after the configured timeout, and only then."""
import json

from .. import gen as G, refcodec as rc
from ..core import Violation
from ..gen import Scenario, op, send

ID = "C13"
BUDGET = {"quick": 40, "thorough": 600}
MAX_RUNS = {"quick": 5000, "thorough": 200000}
RULE = ("plans: timeouts.idle / timeouts.udp each in {absent,0,1,2,5,30,600,3600} x listener kind (http, socks4/5, reverse tcp, quic, "
        "socks5 UDP associate, reverse udp) x traffic pattern (silent, one-directional trickle just under the period, burst then silence, "
        "both directions alternating) through the real main() start-up wiring; non-trivial = the tunnel was established and the run "
        "observed either an idle close or a survival past the deadline; distinct = distinct (config, pattern) x event-order hash")
RULE_MORE = 'Later additions: wall-clock steps; handshakes slower than the period; practically infinite values; a short earlier tunnel and a pause before the measured one; half-closed and slowly draining tunnels; diverted (TPROXY TCP) and reverse-TCP tunnels with timeouts.udp different from timeouts.idle.'
LEVEL_TEXT = ("seeded exploration through the real main(): the configured timeouts reach the registry only through start-up order, so each plan "
              "boots the whole binary with generated timeouts and measures on the virtual clock when the proxy closes an idle tunnel "
              "(EOF/reset seen by the client, or the record's terminal timestamp for UDP sessions); hours of idle time cost microseconds")
LEVEL_NOTE = "virtual clock (tokio paused time + interposed clock_gettime); slack G=3s above, 150 ms below for delivery delays; the TPROXY listener runs in TCP mode (simulated netfilter diversion + SO_ORIGINAL_DST), its UDP mode is not simulated"
ASSUMPTIONS = ["'last activity' is taken from the harness' view of when data was delivered (<= 20 ms from the proxy's own stamp)"]

TECHNIQUE = "deterministic simulation: real main() on a virtual clock, seeded traffic patterns, bounded-time oracle on close instants"
G_US = 3_000_000
LOW_SLACK_US = 150_000
VALUES = [None, 0, 1, 2, 5, 30, 600, 3600, None, 0, 1, 2, 5, 30, 600, 3600, 10 ** 10, 18446744073709552, 2 ** 63]   # the last ones: "practically never"
HUGE = 10 ** 9
KINDS = [("http", 3), ("socks5", 2), ("socks4", 1), ("reverse", 2), ("tproxy", 1), ("quic", 1), ("socks5udp", 2), ("reverseudp", 2), ("httpudp", 2)]


def wchoice(rng, items):
    return rng.choice([n for n, w in items for _ in range(w)])


def gen(rng, tier, i):
    sc = Scenario(rng)
    idle = rng.choice(VALUES)
    udp = rng.choice(VALUES)
    to = {}
    if idle is not None:
        to["idle"] = idle
    if udp is not None:
        to["udp"] = udp
    if to or rng.random() < 0.5:
        sc.cfg["timeouts"] = to
    kind = wchoice(rng, KINDS)
    if tier == "quick" and kind == "quic" and rng.random() < 0.5:
        kind = "http"
    is_udp = kind in ("socks5udp", "reverseudp", "httpudp")
    T = (udp if udp is not None else 600) if is_udp else (idle if idle is not None else 600)
    sc.net["chaos"] = dict(G.CHAOS_LEVELS[rng.choice(["none", "mild", "mild"])])
    if sc.net["chaos"]:
        sc.net["chaos"]["capacity"] = 1 << 20
        sc.net["chaos"]["delay_max_us"] = rng.choice([1000, 5000, 20000])
    sc.net["spawn_yield"] = rng.choice([0, 300])
    sc.net["lock_yield"] = rng.choice([0, 0, 300])   # seeded scheduling points at the asynchronous locks
    d = sc.add_direct("direct")
    sc.rule("direct")
    pattern = rng.choice(["silent", "trickle-c2s", "trickle-s2c", "burst", "alternate"])
    if not is_udp and rng.random() < 0.12:
        pattern = "half-closed"   # the client ends its direction, the origin keeps its own open and says nothing more
    elif not is_udp and kind in ("http", "socks5", "socks4", "reverse", "tproxy") and T in (1, 2, 5) and rng.random() < 0.3:
        # a receiver that drains slowly but steadily (2 KiB every 250 ms) behind small socket buffers: the tunnel carries data
        # all the time, although one relay chunk takes longer than the idle period to get through
        pattern = "slow-drain"
        sc.net["chaos"] = {"capacity": 4096}
        sc.cfg["ioParams"] = {"bufferSize": 65536, "useSplice": False}
    rounds = rng.randint(1, 4)
    # period of the trickle: just under T (or arbitrary when T = 0 / huge)
    if T == 0 or T >= HUGE:
        period_ms = rng.choice([1000, 60000, 900000])
    else:
        period_ms = max(1, int(T * 1000 * rng.choice([0.5, 0.9, 0.97])) - rng.choice([0, 5, 50]))
        if T * 1000 - period_ms < 40:
            period_ms = max(1, T * 1000 - 40)
    horizon_ms = (T * 1000 + 30000) if 0 < T < HUGE else 4 * 3600 * 1000
    # the wall clock may jump while the tunnel exists (operator, NTP step): idleness is elapsed time, not a difference of dates
    # (not for reverse-UDP sessions: their end is only observable through the record's wall-clock timestamps)
    if rng.random() < 0.3 and kind != "reverseudp":
        tt = T if 0 < T < HUGE else 60
        for _ in range(rng.randint(1, 2)):
            sc.faults.append({"at_ms": rng.randint(200, max(300, min(horizon_ms, tt * 3000))), "kind": "clock_step",
                              "ms": rng.choice([-(tt + 1) * 1000, (tt + 1) * 1000, -3600000, 3600000, -500, 86400000, -(tt * 1000) // 2])})
    # a client that takes its time before it sends the request: the tunnel is young when it is established, however old the connection is
    pre_wait = 0
    if 0 < T <= 30 and kind in ("http", "socks5", "socks4") and rng.random() < 0.25:
        pre_wait = rng.choice([T * 1000 + 500, 2 * T * 1000, T * 1000 - 200])
    meta = {"cls": "%s/%s" % (kind, pattern), "cfgkey": "%s/%s/i%s/u%s" % (kind, pattern, idle, udp), "kind": kind, "T": T, "pattern": pattern, "idle": idle, "udp": udp}
    oaddr = "%s:%d" % (sc.origin_ip(), sc.port())
    if not is_udp:
        if kind == "http":
            li = sc.add_http_listener("l")
        elif kind in ("socks5", "socks4"):
            li = sc.add_socks_listener("l")
        elif kind == "reverse":
            li = sc.add_reverse_listener("l", oaddr)
        elif kind == "tproxy":
            li = sc.add_tproxy_listener("l")
        else:
            li = sc.add_quic_listener("l")
        host, port = oaddr.split(":")
        hs, proto = sc.client_handshake(li, host, int(port), variant={"socks5": "5", "socks4": "4"}.get(kind))
        if pre_wait:
            hs = [op("sleep", ms=pre_wait)] + hs
        cw, cr, ow, orr = [], [], [], []
        # traffic scripts: the sender writes one byte then sleeps; the receiver reads one byte each round
        def trickle(sender_w, recv_r, n):
            for k in range(n):
                sender_w.append(send(bytes([65 + k])))
                sender_w.append(op("sleep", ms=period_ms))
                recv_r.append(op("recv_n", n=1, timeout_ms=horizon_ms + period_ms * (n + 1), label="data"))
        if pattern == "trickle-c2s":
            trickle(cw, orr, rounds)
        elif pattern == "trickle-s2c":
            trickle(ow, cr, rounds)
        elif pattern == "half-closed":
            # a half-closed tunnel is still a tunnel: it idles out like any other, counted from its last byte
            cw += [send(b"h"), op("shutdown")]
            orr += [op("recv_n", n=1, timeout_ms=60000, label="data"), op("recv_eof", timeout_ms=60000, label="half-eof")]
            if rng.random() < 0.5:
                ow += [op("sleep", ms=period_ms), send(b"s")]
                cr.append(op("recv_n", n=1, timeout_ms=horizon_ms + 2 * period_ms, label="data"))
        elif pattern == "slow-drain":
            L = 8192 * (2 * T + 10)
            cw.append(op("send", fill=[7, L], timeout_ms=600000, on_fail="continue"))
            orr.append(op("pace", chunk=2048, gap_ms=250))
            orr.append(op("expect", fill=[7, L], timeout_ms=600000, label="data"))
        elif pattern == "burst":
            cw.append(op("send", fill=[7, 5000]))
            orr.append(op("expect", fill=[7, 5000], timeout_ms=60000, label="data"))
            ow.append(op("send", fill=[9, 3000]))
            cr.append(op("expect", fill=[9, 3000], timeout_ms=60000, label="data"))
        elif pattern == "alternate":
            for k in range(rounds):
                cw += [send(b"c"), op("sleep", ms=2 * period_ms)]
                orr.append(op("recv_n", n=1, timeout_ms=horizon_ms + 2 * period_ms * (rounds + 1), label="data"))
                ow += [op("sleep", ms=period_ms), send(b"s"), op("sleep", ms=period_ms)]
                cr.append(op("recv_n", n=1, timeout_ms=horizon_ms + 2 * period_ms * (rounds + 1), label="data"))
        big = horizon_ms + (2 * period_ms * (rounds + 2))
        cr.append(op("recv_eof", timeout_ms=big, label="closed"))
        orr.append(op("recv_eof", timeout_ms=big, label="closed"))
        # writers stay silent afterwards and never close on their own
        cw.append(op("sleep", ms=big + 1000))
        ow.append(op("sleep", ms=big + 1000))
        sc.add_origin(oaddr, conns=[[op("par", r=orr, w=ow)]], oid="origin")
        main_start = 10
        if kind in ("http", "socks5", "socks4", "tproxy") and rng.random() < 0.3:
            # an earlier, short tunnel and then a while without any tunnel: whatever the first one started (timers,
            # tickers, shared state) must still work for the one that is measured
            paddr = "%s:%d" % (sc.origin_ip(), sc.port())
            sc.add_origin(paddr, default_ops=[op("recv_n", n=1, timeout_ms=5000, on_fail="continue"), send(b"y", on_fail="continue"), op("recv_eof", timeout_ms=5000, on_fail="continue")], oid="preorigin")
            ph, pp = paddr.split(":")
            phs, _ = sc.client_handshake(li, ph, int(pp), variant={"socks5": "5", "socks4": "4"}.get(kind))
            sc.add_client("pre", li, [dict(o, on_fail="continue") for o in phs] + [send(b"x", on_fail="continue"), op("recv_n", n=1, timeout_ms=5000, on_fail="continue"), op("close")], start_ms=10)
            main_start = rng.choice([1500, 2500, 4000, 9000])
            if kind == "tproxy":
                hs, proto = sc.client_handshake(li, host, int(port))     # (the tproxy listener remembers the last destination asked for)
        # (slow-drain: the client's own connection has ordinary socket buffers, so that the relay reads whole chunks)
        sc.add_client("c", li, hs + [op("par", r=cr, w=cw)], start_ms=main_start, chaos={"capacity": 1 << 20} if pattern == "slow-drain" else None)
        meta["cid"] = "c" if kind != "quic" else "c/s0"
        meta["proto"] = proto
        sc.max_ms = big + 20000
    else:
        # UDP sessions: observe through the connection record (history) because a UDP "close" has no packet
        oip, oport = oaddr.split(":")
        sc.actors.append({"essential": True, "kind": "udp", "id": "uorigin", "bind": oaddr, "echo": True, "ops": []})
        n = rounds if pattern != "silent" else 1
        if kind == "httpudp":
            # a UDP association carried over the HTTP listener (inline frames): timeouts.udp applies to it
            li = sc.add_http_listener("l")
            req = rc.http_connect(oaddr, [("Host", oaddr), ("Proxy-Protocol", "udp")])
            w = []
            for k in range(n if pattern != "silent" else 0):
                w += [send(rc.rpfm_frame(0, oip, int(oport), bytes([48 + k]) * 4)), op("sleep", ms=period_ms)]
            w.append(op("sleep", ms=horizon_ms + period_ms * (n + 2)))
            rr = [op("recv_rpfm", timeout_ms=horizon_ms + period_ms * (n + 2), label="data", on_fail="continue") for k in range(n if pattern != "silent" else 0)]
            rr.append(op("recv_eof", timeout_ms=horizon_ms + period_ms * (n + 2), label="closed"))
            sc.add_client("c", li, [send(req), op("recv_http_head", label="reply"), op("par", w=w, r=rr)], start_ms=10)
            meta["cid"] = "c"
        elif kind == "reverseudp":
            li = sc.add_reverse_listener("l", oaddr, protocol="udp")
            ops = []
            for k in range(n):
                ops += [op("send", to=li["addr"], hex=bytes([48 + k]).hex() * 4), op("sleep", ms=period_ms)]
            ops.append(op("sleep", ms=horizon_ms))
            sc.actors.append({"kind": "udp", "id": "uc", "bind": "%s:%d" % (sc.client_ip(), 7000), "ops": ops})
            meta["cid"] = None
        else:
            li = sc.add_socks_listener("l")
            # control connection: associate, then keep reading until the proxy closes it
            ctrl = [send(rc.socks5_greeting([0])), op("recv_n", n=2, label="method"),
                    send(rc.socks5_request(3, "0.0.0.0", 0)), op("recv_socks5_reply", label="reply"),
                    op("set", flag="assoc"), op("recv_eof", timeout_ms=horizon_ms + period_ms * (n + 2), label="closed")]
            cip = sc.client_ip()
            sc.actors.append({"kind": "tcp_client", "id": "c", "src": cip, "dst": li["addr"], "start_ms": 10, "ops": ctrl})
            meta["cid"] = "c"
            meta["udp_client"] = "%s:7000" % cip
            # the UDP relay port is only known at run time: the plan uses the deterministic allocator's first port
            meta["relay_port_guess"] = True
            ops = [op("wait", flag="assoc", timeout_ms=5000)]
            for k in range(n if pattern != "silent" else 0):
                ops += [op("send", to="socks5reply:c", hex=rc.socks5_udp_wrap(oip, int(oport), bytes([48 + k]) * 4).hex()), op("sleep", ms=period_ms)]
            ops.append(op("sleep", ms=horizon_ms))
            sc.actors.append({"kind": "udp", "id": "uc", "bind": "%s:7000" % cip, "ops": ops})
        sc.max_ms = horizon_ms + period_ms * (n + 2) + 20000
    # API: read the history after everything must be over, and the live list early on
    sc.api_call("live", "GET", "/api/live", start_ms=500)
    sc.api_call("hist", "GET", "/api/history", start_ms=sc.max_ms - 5000)
    sc.meta = meta
    return sc.plan(want_events=False)


def last_activity_us(R, meta):
    """latest harness-observed delivery of payload on the tunnel; None = never carried data"""
    t = None
    for r in R.records:
        if r.get("label") == "data" and r.get("res") == "ok":
            t = max(t or 0, r["t1"])
        if r.get("udp") == "recv" and r.get("actor") in ("uorigin", "uc"):
            t = max(t or 0, r["t"])
    return t


def oracle(plan, out):
    R = G.Result(out)
    meta = plan["meta"]
    V = []

    def v(clause, text, **d):
        V.append(Violation(ID, clause, "C13/%s/%s" % (clause, meta["kind"]), text, d))

    if out["hung"] or not R.ok:
        v("crash", "process ended or hung: exit=%s %s" % (out["exit"], out["stderr"][-300:]))
        return V
    for p in R.panics():
        v("panic", "panic at %s: %s" % (p.get("loc"), p.get("msg", "")))
    T = meta["T"]
    kind = meta["kind"]
    is_udp = kind in ("socks5udp", "reverseudp", "httpudp")
    # --- find the record of our tunnel in the API history
    hist = R.history("hist")
    rec = None
    if hist and hist[0] == 200:
        try:
            for h in json.loads(hist[2]):
                if h.get("listener") == "l":
                    rec = h
        except ValueError:
            pass
    live = R.history("live")
    live_rec = None
    if live and live[0] == 200:
        try:
            for h in json.loads(live[2]):
                if h.get("listener") == "l":
                    live_rec = h
        except ValueError:
            pass
    if live_rec is not None and live_rec.get("idle_timeout") != T:
        v("wrong-configured-value", "live connection reports idle_timeout=%s but the configuration says %s s for this kind of tunnel (idle=%s udp=%s)" % (
            live_rec.get("idle_timeout"), T, meta["idle"], meta["udp"]))
    # --- when was the tunnel established / last active, when was it closed
    if not is_udp:
        cid = meta["cid"]
        if meta["proto"] != "reverse":
            from .c01 import reply_ok
            if not reply_ok(meta["proto"], R.op_by_label(cid, "reply")):
                return V  # not established: nothing to measure (C01/C06 own that)
        conn = R.connect(cid.split("/")[0])
        start = conn["t1"] if conn else None
        closed = R.op_by_label(cid, "closed")
        close_t = None
        if closed is not None and not closed["res"].startswith("timeout"):
            close_t = closed["t1"]
    else:
        if kind == "httpudp":
            rep = R.op_by_label("c", "reply")
            if rep is None or rep["res"] != "ok" or not bytes.fromhex(rep["hex"]).startswith(b"HTTP/1.1 200"):
                return V
            closed = R.op_by_label("c", "closed")
            close_t = closed["t1"] if closed is not None and not closed["res"].startswith("timeout") else None
            start = (R.connect("c") or {}).get("t1")
        elif kind == "socks5udp":
            rep = R.op_by_label("c", "reply")
            if rep is None or rep["res"] != "ok":
                return V
            closed = R.op_by_label("c", "closed")
            close_t = closed["t1"] if closed is not None and not closed["res"].startswith("timeout") else None
            start = (R.connect("c") or {}).get("t1")
        else:
            start = None
            for r in R.records:
                if r.get("actor") == "uc" and r.get("udp") == "send":
                    start = r["t"]
                    break
            close_t = None
            if rec is not None:
                # terminal state timestamp (ms since epoch) -> virtual us
                term = [s for s in rec.get("state", []) if s["state"] in ("Terminated", "ErrorOccured")]
                first = rec["state"][0]["time"] if rec.get("state") else None
                if term and first is not None and start is not None:
                    close_t = start + (term[-1]["time"] - first) * 1000
    if start is None:
        return V
    if meta["pattern"] == "slow-drain":
        d = [r for r in R.records if r.get("label") == "data"]
        if d and d[-1].get("res") != "ok":
            v("closed-while-data-flowing", "configured %d s: the receiver drained 2 KiB every 250 ms without a pause, yet the stream ended with %s (tunnel closed at %s)" % (
                T, d[-1].get("res"), ("%.3fs" % (close_t / 1e6)) if close_t else "?"))
            return V
    a = last_activity_us(R, meta)
    base = a if a is not None else start
    if a is not None and a < start:
        base = start
    # a tunnel is as old as its establishment (the moment the client was told so), not as its TCP connection
    est = R.op_by_label(meta.get("cid") or "c", "reply")
    if est is not None and est.get("res") == "ok" and est["t1"] > base:
        base = est["t1"]
    end_us = R.res.get("end_us", 0)
    if T == 0:
        if close_t is not None:
            v("closed-though-disabled", "timeout 0 (disabled) but the proxy closed the tunnel at %.3fs (last activity %.3fs)" % (close_t / 1e6, base / 1e6))
        return V
    if T >= HUGE:
        if close_t is not None:
            v("early-close", "configured %d s (practically never): the proxy closed the tunnel at %.3fs, last activity %.3fs" % (T, close_t / 1e6, base / 1e6))
        return V
    lo = base + T * 1_000_000 - LOW_SLACK_US
    hi = base + T * 1_000_000 + G_US
    if close_t is None:
        if end_us > hi + 1_000_000:
            v("late-close", "configured %d s: last activity at %.3fs, tunnel still open at %.3fs (deadline %.3fs)" % (T, base / 1e6, end_us / 1e6, hi / 1e6))
        return V
    if close_t < lo:
        v("early-close", "configured %d s: last activity at %.3fs but the proxy closed the tunnel at %.3fs (%.3fs early)" % (T, base / 1e6, close_t / 1e6, (base + T * 1e6 - close_t) / 1e6))
    elif close_t > hi:
        v("late-close", "configured %d s: last activity at %.3fs, closed only at %.3fs (%.3fs late)" % (T, base / 1e6, close_t / 1e6, (close_t - base - T * 1e6) / 1e6))
    return V


def probes(plan, out):
    R = G.Result(out)
    meta = plan["meta"]
    closed = R.op_by_label(meta.get("cid") or "c", "closed") if meta.get("cid") else None
    return {"nontrivial": R.ok and R.res.get("end_us", 0) > 1_000_000,
            "idle_close_observed": bool(closed and not closed["res"].startswith("timeout")),
            "disabled_timeout": meta["T"] == 0,
            "udp_session": meta["kind"] in ("socks5udp", "reverseudp", "httpudp"),
            "trickle": meta["pattern"].startswith("trickle")}
