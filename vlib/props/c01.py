"""C01 — TCP tunnel byte-stream fidelity across every listener x connector pairing."""
import os
from .. import gen as G, refcodec as rc
from ..core import Violation
from ..gen import Scenario, op, send, tag_header, TAG_XOR

ID = "C01"
BUDGET = {"quick": 45, "thorough": 900}
MAX_RUNS = {"quick": 5000, "thorough": 400000}
RULE = ("plans drawn from a seeded swarm: listener kind (http/socks4/4a/5/reverse/quic, +TLS) x connector kind "
        "(direct/http/socks4/5/quic/loadbalance/chain through the proxy's own listeners, +TLS) x bufferSize x chaos level "
        "(segmentation, short writes/reads, delays, tiny pipes, spurious Pending, task yields) x 1-6 concurrent tunnels x payload "
        "lengths x early data x who-speaks-first; a run is non-trivial when at least one tunnel was reported established and "
        "relayed >=1 byte in each direction under a chaos level other than 'none'; distinct = distinct event-order hash")
RULE_MORE = 'Later additions: kernel-lane back-pressure with seeded short splice counts; casualty tunnels whose far end aborts mid-stream; diverted (TPROXY TCP) clients; CONNECT heads with a whitespace-only line (the header lines behind it must never reach a destination); SOCKS4a names that are IPv6 literals; scheduling points at the asynchronous locks.'
LEVEL_TEXT = ("seeded exploration of the real proxy binary on a simulated network: every listener x connector pairing incl. TLS, QUIC, "
              "load-balancing and two-hop chains through the proxy's own listeners, under seeded segmentation, short writes/reads, delays, "
              "back-pressure, task-order perturbation and concurrent tunnels; the oracle verifies every byte of both directions online "
              "(first offending offset) and end-of-stream with zero extra bytes, so duplication, loss, reordering, handshake bytes inside "
              "the tunnel and cross-connection leaks are all caught; sampling, not proof")
LEVEL_NOTE = ("trusts the simulator's TCP model (FIFO pipes, FIN/RST, finite buffers >= 1 byte for plain paths and >= 4 KiB for TLS paths), "
              "the harness' own stream generator/verifier and reference reply parsers; splice(2) path runs on AF_UNIX socketpairs")
ASSUMPTIONS = ["benign network only (no loss/RST): C04/C19 own the faulty cases",
               "splice mode runs on AF_UNIX socketpairs (kernel lane) where per-hop timing is distorted; only byte outcomes are judged there"]

LISTENERS = [("http", 3), ("https", 2), ("socks5", 3), ("socks5p", 2), ("socks5auth", 1), ("socks4", 2), ("socks4a", 1), ("sockstls", 1), ("reverse", 2), ("quic", 2), ("tproxy", 2)]
CONNECTORS = [("direct", 4), ("http", 3), ("https", 2), ("socks5", 3), ("socks5auth", 1), ("socks4", 2), ("sockstls", 1), ("quic", 2), ("lb", 2), ("chain-http", 2), ("chain-socks", 1), ("chain-quic", 1)]


def wchoice(rng, items):
    pool = [n for n, w in items for _ in range(w)]
    return rng.choice(pool)


def make_listener(sc, lk, target=None):
    if lk == "http":
        return sc.add_http_listener("l-http")
    if lk == "https":
        return sc.add_http_listener("l-https", tls=True)
    if lk in ("socks5", "socks5p", "socks4", "socks4a"):
        return sc.add_socks_listener("l-socks")
    if lk == "socks5auth":
        return sc.add_socks_listener("l-socksauth", auth={"required": True, "users": [{"username": "alice", "password": "s3cret"}]})
    if lk == "sockstls":
        return sc.add_socks_listener("l-sockstls", tls=True)
    if lk == "reverse":
        return sc.add_reverse_listener("l-rev", target)
    if lk == "tproxy":
        return sc.add_tproxy_listener("l-tp")
    if lk == "quic":
        return sc.add_quic_listener("l-quic")
    raise ValueError(lk)


def make_connector(sc, ck, name=None):
    rng = sc.rng
    if ck == "direct":
        return sc.add_direct(name or "c-direct")
    if ck == "http":
        return sc.add_http_connector(name or "c-http")
    if ck == "https":
        return sc.add_http_connector(name or "c-https", tls=True)
    if ck == "socks5":
        return sc.add_socks_connector(name or "c-socks5", version=5)
    if ck == "socks5auth":
        return sc.add_socks_connector(name or "c-socks5a", version=5, auth=("bob", "pw"))
    if ck == "socks4":
        return sc.add_socks_connector(name or "c-socks4", version=4)
    if ck == "sockstls":
        return sc.add_socks_connector(name or "c-sockstls", version=5, tls=True)
    if ck == "quic":
        return sc.add_quic_connector(name or "c-quic")
    if ck.startswith("chain-"):
        hop = ck.split("-")[1]
        if hop == "http":
            via = sc.add_http_listener("hop-http", tls=rng.random() < 0.3)
        elif hop == "socks":
            via = sc.add_socks_listener("hop-socks")
        else:
            via = sc.add_quic_listener("hop-quic")
        d = sc.add_direct("hop-direct")
        sc.rule("hop-direct", 'request.listener == "%s"' % via["name"])
        return sc.add_chain_connector(name or ("c-" + ck), via)
    if ck == "lb":
        kinds = [rng.choice(["direct", "http", "socks5", "socks4"]) for _ in range(rng.randint(1, 3))]
        members = [make_connector(sc, k, "m%d-%s" % (j, k)) for j, k in enumerate(kinds)]
        algo = rng.choice([None, "rr", "random", {"hashBy": "request.source.host"}])
        return sc.add_loadbalance(name or "c-lb", members, algo)
    raise ValueError(ck)


def leaf_connectors(ci):
    if ci["kind"] == "lb":
        out = []
        for m in ci["members"]:
            out += leaf_connectors(m)
        return out
    return [ci]


def origin_ops(tmo, pace=None):
    return ([op("pace", chunk=pace[0], gap_ms=pace[1])] if pace else []) + [op("serve_tagged", timeout_ms=tmo, chunk=0)]


def gen(rng, tier, i):
    sc = Scenario(rng)
    thorough = tier == "thorough"
    lk = wchoice(rng, LISTENERS)
    ck = wchoice(rng, CONNECTORS)
    if not thorough and rng.random() < 0.5:
        # keep quick runs cheap: fewer QUIC plans
        if lk == "quic":
            lk = "http"
        if ck in ("quic", "chain-quic"):
            ck = "direct"
    splice = rng.random() < (0.12 if not os.environ.get("C01_FORCE_SPLICE") else 1.0) and lk in ("http", "socks5", "socks5p", "socks4", "socks4a", "reverse", "tproxy") and ck in ("direct", "http", "socks5", "socks4", "chain-http")
    bufsz = rng.choice([1, 2, 7, 512, 4096, 65536, 1 << 20]) if not splice else rng.choice([1000, 4096, 65536, 1 << 20])
    sc.cfg["ioParams"] = {"bufferSize": bufsz, "useSplice": bool(splice)}
    if splice:
        sc.net["backend"] = "kernel"
        chaos_name = "kernel"
        # back-pressure on the kernel lane: small SO_SNDBUF on every socket pair + slow readers, so that
        # splice(2) from the pipe into the destination socket comes up short
        backpressure = rng.random() < 0.6
        sc.net["chaos"] = {}
        if backpressure:
            sc.net["chaos"]["capacity"] = rng.choice([2304, 4096, 16384, 65536])
            chaos_name = "kernel-bp"
        # splice(2) moving fewer bytes than asked for (what real TCP sockets do under back-pressure)
        short = rng.choice([0, 30, 300])
        if short:
            sc.net["chaos"]["short_write"] = short
            chaos_name += "-short"
    else:
        chaos_name, sc.net["chaos"] = G.pick_chaos(rng)
        tls_path = lk in ("https", "sockstls", "quic") or ck in ("https", "sockstls", "quic", "chain-quic", "chain-http", "lb")
        while tls_path and sc.net["chaos"].get("capacity", 1 << 20) < 4096:
            # socket buffers below the kernel's real minimum (~2-4 KiB) deadlock rustls' handshake by
            # construction (it refuses to read while it has handshake bytes to send): not a proxy property
            chaos_name, sc.net["chaos"] = G.pick_chaos(rng)
        sc.net["spawn_yield"] = rng.choice([0, 200, 500])
        sc.net["lock_yield"] = rng.choice([0, 0, 300])   # seeded scheduling points at the asynchronous locks
    tmo = 7200000
    # the (single) destination for reverse listeners, fresh destinations otherwise
    v6_origin = rng.random() < (0.4 if lk == "socks4a" else 0.15) and ck in ("direct", "http", "socks5", "chain-http") and lk not in ("socks4", "reverse") and not (lk == "socks4a" and ck not in ("direct", "socks5"))   # (a SOCKS4a name that is an IPv6 literal has colons: no CONNECT authority can carry it as a name, C03)
    ntun = rng.choice([1, 1, 2, 3, 4, 6]) if not splice else rng.choice([1, 2])
    by_name = rng.random() < 0.3 and lk not in ("socks4", "tproxy")   # a diverted connection only ever has an address
    oip = sc.origin_ip(v6_origin)
    oport = sc.port()
    oaddr = ("[%s]:%d" % (oip, oport)) if v6_origin else "%s:%d" % (oip, oport)
    ohost = oip
    if by_name:
        ohost = "origin%d.sim" % rng.randint(1, 9)
        sc.dns[ohost] = [oip]
    li = make_listener(sc, lk, target=("%s:%d" % (ohost, oport)) if not v6_origin else oaddr)
    ci = make_connector(sc, ck)
    sc.rule(ci["name"], 'request.listener == "%s"' % li["name"])
    leaves = leaf_connectors(ci)
    pace = None
    if splice and chaos_name.startswith("kernel-bp"):
        pace = (rng.choice([512, 1500, 4096, 65536]), rng.choice([1, 1, 5, 20]))
    # every fake upstream serves any number of connections: handshake, then tagged origin behaviour
    direct_needed = False
    for leaf in leaves:
        if leaf["kind"] in ("direct", "chain"):
            direct_needed = True
        else:
            key = "default_ops"
            leaf["server"][key] = sc.upstream_handshake(leaf) + origin_ops(tmo, pace)
    if direct_needed:
        sc.add_origin(oaddr, default_ops=origin_ops(tmo, pace), oid="origin")
    # a names-only upstream (socks4 cannot carry a name it cannot resolve... it can: 4a) is fine
    tunnels = []
    banner_mode = rng.random() < 0.15 and ck in ("direct", "http", "https", "socks5", "socks4", "sockstls", "socks5auth") and not splice
    if banner_mode:
        ntun = 1
    maxlen = min(262144 if not thorough else 4 << 20, max(64, bufsz * 3000))
    cap = sc.net.get("chaos", {}).get("capacity", 1 << 20) or (1 << 20)
    tls_any = lk in ("https", "sockstls", "quic") or ck in ("https", "sockstls", "quic", "chain-quic")
    maxlen = min(maxlen, max(64, cap * (300 if tls_any else 3000)))
    if splice:
        maxlen = min(maxlen, 400000)
    if lk == "quic" or ck in ("quic", "chain-quic"):
        maxlen = min(maxlen, 1 << 20)   # QUIC (real quinn + rustls per packet) is the slowest path in wall time
    for t in range(ntun):
        seed = rng.getrandbits(60) | 1
        lens = []
        for _ in range(2):
            r = rng.random()
            if r < 0.1:
                lens.append(0)
            elif r < 0.2:
                lens.append(1)
            elif r < 0.45:
                lens.append(max(0, bufsz + rng.choice([-1, 0, 1])) if bufsz <= maxlen else rng.randint(0, 4096))
            else:
                lens.append(int(maxlen ** rng.random()))
        c2s, s2c = lens
        early = rng.random() < 0.5
        if sc.net.get("chaos", {}).get("capacity", 1 << 20) < 4096:
            # with sub-realistic socket buffers a client that pipelines more than the buffer while not yet
            # reading the reply deadlocks against any server; early data is exercised with realistic buffers
            early = False
        hdr = tag_header(seed, c2s, s2c)
        variant = {"socks5": "5", "socks5p": "5p", "socks4": "4", "socks4a": "4", "socks5auth": rng.choice(["5", "5p"]), "sockstls": rng.choice(["5", "5p", "4"])}.get(lk)
        if sc.net.get("chaos", {}).get("capacity", 1 << 20) < 4096 and variant == "5p":
            variant = "5"  # no pipelining against sub-realistic socket buffers (see the early-data note)
        creds = ("alice", "s3cret") if lk == "socks5auth" else None
        host = ohost
        if variant == "4" and ":" in ohost and ck not in ("direct", "socks5"):
            variant = "5"     # (a SOCKS4a name that is an IPv6 literal cannot be carried as a name in a CONNECT authority: C03)
        if lk == "socks4" and by_name:
            host = oip
        hs, proto = sc.client_handshake(li, host, oport, early=hdr if early else b"", variant=variant, creds=creds)
        chunk = rng.choice([0, 1, 7, 1000, 65536])
        if pace and chunk in (1, 7) and c2s > 4000:
            # on the kernel lane readiness is only noticed when the paused clock steps: tiny writes into tiny
            # socket buffers move ~10 bytes per step, and a long stream would only measure that distortion
            chunk = rng.choice([0, 1000, 65536])
        gap = rng.choice([0, 0, 0, 1, 5]) if c2s < 20000 else 0
        wops = []
        if not early:
            wops.append(send(hdr))
        wops.append(op("send", fill=[seed, c2s], chunk=chunk, gap_ms=gap, timeout_ms=tmo))
        wops.append(op("shutdown"))
        rops = [op("expect", fill=[seed ^ TAG_XOR, s2c], timeout_ms=tmo, label="s2c"), op("recv_eof", timeout_ms=tmo, label="s2c-eof")]
        if pace and rng.random() < 0.7:
            rops.insert(0, op("pace", chunk=pace[0], gap_ms=pace[1]))
        ops = hs + [op("par", w=wops, r=rops)]
        cid = "t%d" % t
        cchaos = None
        if banner_mode:
            # who speaks first = the origin: its banner (glued to the upstream's success reply when there is an upstream proxy)
            # must reach the client before the client says anything; then the client's stream goes up
            hs, proto = sc.client_handshake(li, host, oport, variant=variant, creds=creds)
            ops = hs + [op("expect", fill=[seed ^ TAG_XOR, s2c], timeout_ms=tmo, label="s2c"), op("send", fill=[seed, c2s], timeout_ms=tmo), op("shutdown"), op("recv_eof", timeout_ms=tmo, label="s2c-eof")]
            far = [op("recv_eof", timeout_ms=tmo, label="banner-c2s", keep=0), op("shutdown")]
            leaf = leaves[0]
            if leaf["kind"] == "direct":
                for a in sc.actors:
                    if a.get("id") == "origin":
                        a["default_ops"] = [op("send", fill=[seed ^ TAG_XOR, s2c], timeout_ms=tmo)] + far
            else:
                hsu = sc.upstream_handshake(leaf)
                last = [o for o in hsu if o["op"] == "send"][-1]
                last["fill"] = [seed ^ TAG_XOR, s2c]      # banner glued behind the success reply in the same write
                last["timeout_ms"] = tmo
                leaf["server"]["default_ops"] = hsu + far
            sc.add_client(cid, li, ops, start_ms=10)
            tunnels.append({"cid": cid if li["kind"] != "quic" else cid + "/s0", "seed": seed, "c2s": c2s, "s2c": s2c, "proto": proto, "early": False, "banner": True})
            continue
        sc.add_client(cid, li, ops, start_ms=10 + rng.choice([0, 0, 1, 3, 50]) * t, chaos=cchaos)
        tunnels.append({"cid": cid if li["kind"] != "quic" else cid + "/s0", "seed": seed, "c2s": c2s, "s2c": s2c, "proto": proto, "early": early})
    # casualties: tunnels whose far end aborts while the client's stream is still arriving; healthy tunnels run next to
    # them and after them ("no byte of one connection ever appears in another": also not the bytes of a dead one)
    casualties = []
    if not banner_mode and li["kind"] != "quic" and rng.random() < (0.5 if splice else 0.2):
        for k in range(rng.choice([1, 1, 2, 3])):
            cseed = rng.getrandbits(60) | 1
            clen = min(rng.choice([1, 700, 5000, 70000, 300000]), maxlen)
            chdr = tag_header(cseed, clen, 0, flags=2 | (rng.choice([0, 1, 20, 200]) << 8))
            variant = {"socks5": "5", "socks5p": "5", "socks4": "4", "socks4a": "4", "socks5auth": "5", "sockstls": "5"}.get(lk)
            creds = ("alice", "s3cret") if lk == "socks5auth" else None
            hs, _ = sc.client_handshake(li, oip if (lk == "socks4" and by_name) else ohost, oport, variant=variant, creds=creds)
            ops = [dict(o, on_fail="continue") for o in hs] + [op("par", w=[dict(send(chdr), on_fail="continue"), op("send", fill=[cseed, clen], timeout_ms=20000, on_fail="continue", label="doomed")],
                                                                   r=[op("recv_eof", timeout_ms=20000, on_fail="continue", keep=0, label="doomed-end")])]
            cid = "x%d" % k
            sc.add_client(cid, li, ops, start_ms=rng.choice([0, 5, 10, 40]))
            casualties.append(cid)
        # some healthy tunnels start only after the casualties are over
        late = 0
        for a in sc.actors:
            if a.get("id", "").startswith("t") and a.get("kind") in ("tcp_client", "quic_client") and rng.random() < 0.6:
                a["start_ms"] = a.get("start_ms", 0) + rng.choice([500, 3000, 25000])
                late += 1
    # a CONNECT head with a whitespace-only line in it: whatever the proxy makes of it (refuse it, ignore the line), the header
    # lines behind it are part of the head - they must never travel down the tunnel
    if lk in ("http", "https") and not banner_mode and rng.random() < 0.1:
        tgt = ("[%s]:%d" % (ohost, oport)) if ":" in ohost else "%s:%d" % (ohost, oport)
        odd = ("CONNECT %s HTTP/1.1\r\nHost: %s\r\n%s\r\nX-Secret: %s\r\nX-More: %s\r\n\r\n" % (tgt, tgt, rng.choice(["   ", " ", "\t"]), "s" * 40, "m" * 40)).encode()
        sc.add_client("odd0", li, [send(odd, on_fail="continue"), op("recv_eof", timeout_ms=20000, on_fail="continue", keep=0)], start_ms=rng.choice([0, 10, 60]))
    sc.meta = {"no_generic_fill_shrink": True, "keep_ops": True, "cls": "%s>%s" % (lk, ck), "casualties": casualties, "cfgkey": "%s>%s/b%d/%s/%s" % (lk, ck, bufsz, chaos_name, "splice" if splice else "buf"),
               "tunnels": tunnels, "lk": lk, "ck": ck, "splice": bool(splice), "chaos": chaos_name}
    sc.settle_ms = 0
    sc.max_ms = 4 * 7200000
    return sc.plan(want_events=False, watchdog_s=600 if thorough else 120)


def reply_ok(proto, rec):
    """Did the proxy report 'established' on this client connection?"""
    if rec is None or rec.get("res") != "ok":
        return False
    data = bytes.fromhex(rec["hex"])
    try:
        if proto == "http":
            code, _, rest = rc.parse_http_response(data)
            return code == 200 and rest == b""
        if proto == "socks5":
            rep, _, _, _, rest = rc.parse_socks5_reply(data)
            return rep == 0 and rest == b""
        if proto in ("socks4", "socks4a"):
            code, rest = rc.parse_socks4_reply(data)
            return code == 90 and rest == b""
    except rc.ParseError:
        return False
    return proto == "reverse"


def oracle(plan, out):
    R = G.Result(out)
    meta = plan["meta"]
    pair = meta["cls"] + ("/splice" if meta["splice"] else "")
    V = []

    def v(clause, text, **d):
        V.append(Violation(ID, clause, "C01/%s/%s" % (clause, pair), text, d))

    if out["hung"]:
        v("hang", "the simulated process made no progress for %ss of wall time" % out["wall"])
        return V
    if not R.ok:
        v("crash", "the proxy process ended (exit %s) before the scenario finished: %s" % (out["exit"], (out["stderr"] or "")[-400:]))
        return V
    for p in R.panics():
        v("panic", "panic at %s: %s" % (p.get("loc"), p.get("msg", "")))
    # origin-side records by tag seed
    served = {}
    for r in R.records:
        if r.get("op") == "serve_tagged" and "tag_seed" in r:
            served.setdefault(r["tag_seed"], []).append(r)
    present = set(a["id"] for a in plan["actors"])
    for t in meta["tunnels"]:
        cid = t["cid"]
        if cid.split("/")[0] not in present:
            continue  # removed by the minimiser
        if t["proto"] == "reverse":
            established = True
        else:
            established = reply_ok(t["proto"], R.op_by_label(cid, "reply"))
        if not established:
            rep = R.op_by_label(cid, "reply")
            v("not-established", "tunnel %s (%s) was not reported established in a fault-free world: connect=%s reply=%s" % (
                cid, t["proto"], (R.connect(cid) or {}).get("connect"), (rep or {}).get("res") + ":" + (rep or {}).get("hex", "")[:80] if rep else None))
            continue
        # s2c on the client
        e = R.op_by_label(cid, "s2c")
        if e is None:
            v("s2c-missing", "client %s never started to read" % cid)
        elif e["res"] != "ok":
            clause = "s2c-mismatch" if e["res"].startswith("mismatch") else "s2c-truncated"
            v(clause, "client %s: origin->client stream (len %d) %s" % (cid, t["s2c"], e["res"]), got=e.get("hex"))
        else:
            x = R.op_by_label(cid, "s2c-eof")
            if x is None or not x["res"].startswith("eof@"):
                v("s2c-no-eof", "client %s: no clean end of stream after the last byte: %s" % (cid, x and x["res"]))
            elif x["res"] != "eof@0":
                v("s2c-extra", "client %s received %s extra bytes after the origin's stream: %s" % (cid, x["res"][4:], x.get("hex", "")[:64]))
        if t.get("banner"):
            # the far end only counted the client's bytes
            b = None
            for r in R.records:
                if r.get("label") == "banner-c2s":
                    b = r
            if b is None or not b["res"].startswith("eof@"):
                v("c2s-truncated", "banner tunnel %s: the far end never saw the client's stream end: %s" % (cid, b and b["res"]))
            elif int(b["res"][4:]) != t["c2s"]:
                v("c2s-truncated" if int(b["res"][4:]) < t["c2s"] else "c2s-extra", "banner tunnel %s: the far end received %s bytes, the client sent %d" % (cid, b["res"][4:], t["c2s"]))
            continue
        # c2s on the origin
        srv = served.get(t["seed"], [])
        if len(srv) == 0:
            v("c2s-missing", "no origin/upstream connection ever carried tunnel %s's stream (tag %d)" % (cid, t["seed"]))
            continue
        if len(srv) > 1:
            v("c2s-duplicated", "tunnel %s's stream header arrived on %d origin connections" % (cid, len(srv)))
        s = srv[0]
        oc = s["conn"]
        e = R.op_by_index(oc, s["i"] + "r0")
        if e is None or e["res"] != "ok":
            res = e["res"] if e else "never read"
            clause = "c2s-mismatch" if res.startswith("mismatch") else "c2s-truncated"
            v(clause, "origin %s: client->origin stream of %s (len %d) %s" % (oc, cid, t["c2s"], res), got=e.get("hex") if e else None)
        else:
            x = R.op_by_index(oc, s["i"] + "r1")
            if x is None or not x["res"].startswith("eof@"):
                v("c2s-no-eof", "origin %s: no clean end of stream after the last byte of %s: %s" % (oc, cid, x and x["res"]))
            elif x["res"] != "eof@0":
                v("c2s-extra", "origin %s received %s extra bytes after %s's stream: %s" % (oc, x["res"][4:], cid, x.get("hex", "")[:64]))
    # streams that carry a bad tag = bytes of a handshake or of another hop inside the tunnel
    for r in R.records:
        if r.get("op") == "serve_tagged" and r.get("res") == "badtag":
            h = R.op_by_index(r["conn"], r["i"] + "h")
            v("foreign-bytes", "origin connection %s started with bytes that are not a tunnel header: %s" % (r["conn"], (h or {}).get("hex", "")[:80]))
    return V


def probes(plan, out):
    R = G.Result(out)
    meta = plan["meta"]
    est = 0
    both = 0
    for t in meta["tunnels"]:
        ok = t["proto"] == "reverse" or reply_ok(t["proto"], R.op_by_label(t["cid"], "reply"))
        est += ok
        both += ok and t["c2s"] > 0 and t["s2c"] > 0
    c = (out.get("result") or {}).get("counters", {})
    return {
        "nontrivial": both > 0 and meta["chaos"] != "none",
        "tunnels_established": est,
        "early_data": sum(1 for t in meta["tunnels"] if t["early"]),
        "concurrent_tunnels>1": len(meta["tunnels"]) > 1,
        "splice_lane": meta["splice"],
        "backpressure_engaged": c.get("backpressure", 0) > 0,
        "short_write_hit": c.get("short_write", 0) > 0,
        "zero_length_direction": sum(1 for t in meta["tunnels"] if t["c2s"] == 0 or t["s2c"] == 0),
        "origin_speaks_first": sum(1 for t in meta["tunnels"] if t.get("banner")),
        "casualty_tunnels": len(meta.get("casualties", [])),
    }


NO_GENERIC_FILL_SHRINK = True


def shrink_candidates(plan):
    """Shrink tunnel payloads consistently (tag header, sender fill and receiver expectation)."""
    import copy
    for k, t in enumerate(plan["meta"]["tunnels"]):
        for which in ("c2s", "s2c"):
            ln = t[which]
            for new in (0, 1, ln // 8, ln // 2):
                if new >= ln:
                    continue
                p = copy.deepcopy(plan)
                tt = p["meta"]["tunnels"][k]
                tt[which] = new
                old_hdr = tag_header(t["seed"], t["c2s"], t["s2c"]).hex()
                new_hdr = tag_header(tt["seed"], tt["c2s"], tt["s2c"]).hex()
                seed_of = t["seed"] if which == "c2s" else t["seed"] ^ TAG_XOR

                def fix(ops):
                    for o in ops:
                        if o.get("hex") and old_hdr in o["hex"]:
                            o["hex"] = o["hex"].replace(old_hdr, new_hdr)
                        if o.get("fill") and o["fill"][0] == seed_of:
                            o["fill"] = [seed_of, new]
                        fix(o.get("w", []))
                        fix(o.get("r", []))
                        fix(o.get("ops", []))

                for a in p["actors"]:
                    fix(a.get("ops", []))
                yield "tunnel%d-%s-%d" % (k, which, new), p
                break
