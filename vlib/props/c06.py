"""C06 — client is told 'established' iff upstream is; failures get one complete reply."""
from .. import gen as G, refcodec as rc
from ..core import Violation
from ..gen import Scenario, op, send

ID = "C06"
BUDGET = {"quick": 40, "thorough": 600}
MAX_RUNS = {"quick": 8000, "thorough": 300000}
TECHNIQUE = "deterministic simulation with fault injection: scripted upstream outcomes (refuse, unreachable, black-hole, bad replies, death after reply), reference reply parsers on the raw client transcript, event-order check"
RULE = ("plans: listener protocol (http, https, socks5 interactive/pipelined, socks5+auth, socks4/4a, quic) x outcome class (reachable, refused, "
        "unreachable, black-holed connect, DNS failure, upstream HTTP proxy says 403/407/503/garbage/closes mid-head, upstream SOCKS says no/closes, "
        "upstream dies right after its success reply, deny rule, no rule, UDP on a TCP-only upstream, BIND/unknown command, bad credentials, UDP association "
        "that later times out) x chaos; non-trivial = the client got at least one reply byte or a refusal by close; distinct = (class x event-order hash)")
RULE_MORE = 'Later additions: verbose upstream refusals; alternative well-formed grants; invalid SOCKS4 reply codes; a wrong version byte in the SOCKS5 request; upstream refusals of UDP tunnels; a UDP association granted with an unusable BND.ADDR, or whose relay socket cannot be set up.'
LEVEL_TEXT = ("seeded exploration of the real binary: each plan scripts one upstream outcome and records every byte the client receives until EOF; "
              "independent reference parsers decide whether exactly one well-formed reply was sent, whether it says success, and the simulator's "
              "event order decides whether success was reported only after the upstream leg was really established")
LEVEL_NOTE = "trusts the reference HTTP/SOCKS reply parsers and the simulator's notion of 'established' (connection queued at the listener / upstream reply delivered)"
ASSUMPTIONS = ["an unknown protocol version byte has no 'own protocol' to answer in and is not part of the outcome classes"]

LISTENERS = [("http", 4), ("https", 1), ("socks5", 3), ("socks5p", 2), ("socks5auth", 2), ("socks4", 2), ("socks4a", 1), ("quic", 1)]
OUTCOMES = [("ok", 4), ("refused", 3), ("unreachable", 1), ("blackhole", 1), ("nxdomain", 1),
            ("up-http-403", 1), ("up-http-garbage", 1), ("up-http-closes", 1), ("up-http-midhead", 1), ("up-http-ok", 2),
            ("up-socks-no", 1), ("up-socks-closes", 1), ("up-socks-ok", 2), ("up-socks4-no", 1), ("up-socks4-ok", 1),
            ("up-dies-after-ok", 1), ("deny", 2), ("norule", 2), ("udp-on-tcp-only", 1), ("bind", 1), ("badcmd", 1), ("badcreds", 2),
            ("udp-assoc-timeout", 1), ("up-refused", 1), ("http-unsupported", 2)]


def wchoice(rng, items):
    return rng.choice([n for n, w in items for _ in range(w)])


def gen(rng, tier, i):
    sc = Scenario(rng)
    lk = wchoice(rng, LISTENERS)
    oc = wchoice(rng, OUTCOMES)
    if tier == "quick" and lk == "quic" and rng.random() < 0.5:
        lk = "http"
    socks_l = lk.startswith("socks")
    if oc in ("bind", "badcmd", "badcreds", "udp-assoc-timeout") and not socks_l:
        lk = "socks5auth" if oc == "badcreds" else "socks5"
        socks_l = True
    if oc == "badcreds":
        lk = "socks5auth"
    if oc == "http-unsupported" and lk not in ("http", "https", "quic"):
        lk = rng.choice(["http", "http", "https"])
    if oc in ("bind",) and lk in ("socks4a",):
        lk = "socks4"
    if oc in ("udp-assoc-timeout", "udp-on-tcp-only") and lk in ("socks4", "socks4a", "socks5auth"):
        lk = "socks5"
    if oc == "badcmd" and lk in ("socks4a", "socks5auth"):
        lk = rng.choice(["socks5", "socks4"])
    if oc == "udp-on-tcp-only" and not (lk.startswith("socks5") or lk in ("http", "https", "quic")):
        lk = "socks5"
    cname, chaos = G.pick_chaos(rng, weights=(("none", 2), ("mild", 3), ("heavy", 2)))
    if chaos:
        chaos["capacity"] = 1 << 20
    sc.net["chaos"] = chaos
    sc.net["spawn_yield"] = rng.choice([0, 300])
    sc.net["lock_yield"] = rng.choice([0, 0, 300])   # seeded scheduling points at the asynchronous locks
    sc.cfg["timeouts"] = {"idle": 600, "udp": 2 if oc == "udp-assoc-timeout" else 600}
    # listener
    if lk == "http":
        li = sc.add_http_listener("l")
    elif lk == "https":
        li = sc.add_http_listener("l", tls=True)
    elif lk == "quic":
        li = sc.add_quic_listener("l")
    elif lk == "socks5auth":
        li = sc.add_socks_listener("l", auth={"required": True, "users": [{"username": "alice", "password": "s3cret"}]})
    else:
        li = sc.add_socks_listener("l")
    oip, oport = sc.origin_ip(), sc.port()
    host = oip
    expect = "fail"
    badbnd = False
    badfam = False
    upstream_script = None
    # connector + rules
    if oc in ("ok", "refused", "unreachable", "blackhole", "nxdomain", "bind", "badcmd", "badcreds", "udp-assoc-timeout", "http-unsupported"):
        sc.add_direct("d")
        sc.rule("d")
    elif oc == "deny":
        sc.add_direct("d")
        sc.rule("deny", 'request.target.port == %d' % oport)
        sc.rule("d")
    elif oc == "norule":
        sc.add_direct("d")
        sc.rule("d", 'request.target.port == 1')
    elif oc == "udp-on-tcp-only" and lk == "socks5" and rng.random() < 0.4:
        # an association that cannot be set up: the client declares (enforceUdpClient) a source address of the other family
        badfam = True
        sc.cfg["listeners"][-1]["enforceUdpClient"] = True
        sc.add_direct("d")
        sc.rule("d")
    elif oc == "udp-on-tcp-only":
        m = sc.add_direct("d")
        sc.add_loadbalance("lb", [m])
        sc.rule("lb")
    elif oc.startswith("up-http") or oc in ("up-dies-after-ok", "up-refused"):
        ci = sc.add_http_connector("u")
        sc.rule("u")
    elif oc.startswith("up-socks4"):
        ci = sc.add_socks_connector("u", version=4)
        sc.rule("u")
    else:
        ci = sc.add_socks_connector("u", version=5)
        sc.rule("u")
    # origin / upstream behaviour
    if oc == "ok":
        expect = "ok"
        sc.add_origin("%s:%d" % (oip, oport), default_ops=[op("sleep", ms=200), op("shutdown"), op("recv_eof", timeout_ms=200000)], oid="origin")
    elif oc == "unreachable":
        sc.faults.append({"at_ms": 0, "kind": "unreachable", "ip": oip})
    elif oc == "blackhole":
        sc.faults.append({"at_ms": 0, "kind": "stall", "ip": oip})
    elif oc == "nxdomain":
        host = "nosuch.sim"
        sc.dns[host] = []
    elif oc in ("deny", "norule", "refused", "bind", "badcmd", "badcreds", "http-unsupported"):
        if oc in ("deny", "norule", "bind", "badcmd", "badcreds", "http-unsupported"):
            # an origin exists: it must never be contacted
            sc.add_origin("%s:%d" % (oip, oport), default_ops=[op("recv_eof", timeout_ms=200000)], oid="origin")
    elif oc in ("udp-on-tcp-only", "udp-assoc-timeout"):
        sc.actors.append({"essential": True, "kind": "udp", "id": "uorigin", "bind": "%s:%d" % (oip, oport), "echo": True, "ops": []})
        if oc == "udp-assoc-timeout":
            expect = "ok"
    elif oc == "up-refused":
        # the upstream proxy itself is not listening
        sc.actors = [a for a in sc.actors if a is not ci["server"]]
    else:
        srv = ci["server"]
        tail = [op("sleep", ms=200), op("shutdown"), op("recv_eof", timeout_ms=200000)]
        if oc == "up-http-ok":
            expect = "ok"
            srv["default_ops"] = sc.upstream_handshake(ci) + tail
            if rng.random() < 0.4:
                # other well-formed ways of saying yes: empty reason phrase, HTTP/1.0, extra headers
                yes = rng.choice([b"HTTP/1.1 200 \r\n\r\n", b"HTTP/1.0 200 Connection established\r\n\r\n", b"HTTP/1.1 200 OK\r\nVia: 1.1 up\r\nX-A: b\r\n\r\n",
                                  b"HTTP/1.1 200 Connection Established\r\nProxy-Agent: x\r\n\r\n",
                                  b"HTTP/1.1 200 OK\r\nProxy-Agent:x\r\nVia:\t1.1 up \r\n\r\n"])   # optional whitespace around a field value is optional
                for o in srv["default_ops"]:
                    if o["op"] == "send":
                        o["hex"] = yes.hex()
                        break
        elif oc == "up-http-403":
            code = rng.choice([403, 407, 503, 500, 302, 199])
            body = b"x" * rng.choice([0, 5, 300])
            # the refusal may be verbose (the proxy quotes it in its own error page): long reason phrase, many and long headers
            reason = rng.choice([b"Nope", b"Nope", b"No " * rng.choice([50, 400]), "Verbot\u00e9n \u20ac".encode()])
            extra = b"".join(b"X-Why-%d: %s\r\n" % (n, b"because " * rng.choice([1, 10, 60])) for n in range(rng.choice([0, 0, 3, 10, 40])))
            srv["default_ops"] = [op("recv_http_head", label="upreq"), send(b"HTTP/1.1 %d %s\r\n%sContent-Length: %d\r\n\r\n" % (code, reason, extra, len(body)) + body)] + tail
        elif oc == "up-http-garbage":
            junk = rng.choice([b"\x00\x01\x02garbage\r\n\r\n", b"HTTP/1.1 abc OK\r\n\r\n", b"200 OK\r\n\r\n", b"\r\n\r\n", b"HTTP/1.1 200 OK\r\nbadheader\r\n\r\n"])
            srv["default_ops"] = [op("recv_http_head", label="upreq"), send(junk)] + tail
        elif oc == "up-http-closes":
            srv["default_ops"] = [op("recv_http_head", label="upreq"), op("close")]
        elif oc == "up-http-midhead":
            srv["default_ops"] = [op("recv_http_head", label="upreq"), send(rng.choice([b"HTTP/1.1 200 Connection esta", b"HTTP/1.1 200 OK\r\nX: y\r\n", b"H"])), op("close")]
        elif oc == "up-dies-after-ok":
            expect = "ok"
            srv["default_ops"] = [op("recv_http_head", label="upreq"), send(b"HTTP/1.1 200 OK\r\n\r\n", label="upok"), op("sleep", ms=200), op("reset")]
        elif oc == "up-socks-ok":
            expect = "ok"
            srv["default_ops"] = sc.upstream_handshake(ci) + tail
            if lk in ("socks5", "http", "https") and rng.random() < 0.3:
                # a UDP association the upstream grants with a relay address the proxy cannot use (a name; an all-zero address
                # would mean "where you reached me" and is usable): no upstream path exists, the client must be told so
                badbnd = True
                expect = "fail"
                srv["default_ops"] = sc.upstream_handshake(ci, reply_atyp=3) + tail
        elif oc == "up-socks-no":
            rep = rng.choice([1, 2, 3, 4, 5, 8, 255])
            srv["default_ops"] = [op("recv_n", n=3, label="upgreet"), send(b"\x05\x00"), op("recv_socks5_reply", label="upreq"),
                                  send(bytes([5, rep, 0, 1, 0, 0, 0, 0, 0, 0]))] + tail
        elif oc == "up-socks-closes":
            where = rng.choice(["greet", "req", "midreply"])
            if where == "greet":
                srv["default_ops"] = [op("recv_n", n=3, label="upgreet"), op("close")]
            elif where == "req":
                srv["default_ops"] = [op("recv_n", n=3, label="upgreet"), send(b"\x05\x00"), op("recv_socks5_reply", label="upreq"), op("close")]
            else:
                srv["default_ops"] = [op("recv_n", n=3, label="upgreet"), send(b"\x05\x00"), op("recv_socks5_reply", label="upreq"), send(b"\x05\x00\x00\x01\x00"), op("close")]
        elif oc == "up-socks4-ok":
            expect = "ok"
            srv["default_ops"] = sc.upstream_handshake(ci) + tail
        elif oc == "up-socks4-no":
            srv["default_ops"] = [op("recv_socks4_request", label="upreq"), send(bytes([0, rng.choice([91, 92, 93, 91, 0, 1, 89, 255]), 0, 0, 0, 0, 0, 0]))] + tail   # only 90 grants
    # client
    variant = {"socks5": "5", "socks5p": "5p", "socks4": "4", "socks4a": "4", "socks5auth": rng.choice(["5", "5p"])}.get(lk)
    creds = None
    if lk == "socks5auth":
        creds = ("alice", "s3cret") if oc != "badcreds" else rng.choice([("alice", "wrong"), ("mallory", "s3cret"), ("", ""), ("alice", "")])
    if lk == "socks4a" and oc != "nxdomain":
        host = "origin.sim"
        sc.dns[host] = [oip]
    udp = oc in ("udp-on-tcp-only", "udp-assoc-timeout")
    if oc in ("up-http-403", "up-http-garbage", "up-http-closes", "up-refused") and lk in ("socks5", "http", "https", "quic") and rng.random() < 0.35:
        udp = True     # a UDP tunnel the upstream proxy refuses is refused just as a TCP one
    if badbnd:
        udp = True
    hs, proto = sc.client_handshake(li, host if not (udp and socks_l) else ("fd00::77" if badfam else "0.0.0.0"), oport if not (udp and socks_l) else (5000 if badfam else 0), variant=variant, creds=creds, udp=udp)
    if oc == "http-unsupported":
        # a request the HTTP-style listeners do not support: another method, or CONNECT for an unknown Proxy-Protocol
        tgt = "%s:%d" % (oip, oport)
        bad_pool = [b"GET http://%s/ HTTP/1.1\r\nHost: %s\r\n\r\n" % (tgt.encode(), tgt.encode()),
                          b"POST / HTTP/1.1\r\nHost: x\r\nContent-Length: 0\r\n\r\n",
                          rc.http_connect(tgt, [("Host", tgt), ("Proxy-Protocol", rng.choice(["sctp", "icmp", "tcp6"]))]),
                          b"OPTIONS * HTTP/1.1\r\nHost: x\r\n\r\n",
                          # CONNECT whose authority is not host:port, or whose UDP channel this listener cannot provide
                          b"CONNECT origin.sim HTTP/1.1\r\nHost: origin.sim\r\n\r\n",
                          b"CONNECT %s:notaport HTTP/1.1\r\nHost: x\r\n\r\n" % oip.encode(),
                          b"CONNECT %s:99999 HTTP/1.1\r\nHost: x\r\n\r\n" % oip.encode(),
                          ]
        if lk != "quic":
            # (a QUIC listener provides a datagram channel whatever it is called; TCP listeners only the inline one)
            bad_pool.append(rc.http_connect(tgt, [("Host", tgt), ("Proxy-Protocol", "udp"), ("Proxy-Channel", rng.choice(["datagram", "quic-datagrams", "x"]))]))
        bad = rng.choice(bad_pool)
        for o in hs:
            if o["op"] == "send":
                o["hex"] = bad.hex()
    if oc in ("bind", "badcmd"):
        # rewrite the command byte of the request
        cmd = 2 if oc == "bind" else rng.choice([0, 4, 9, 255] + ([3] if lk == "socks4" else []))   # SOCKS4 has no command 3
        badver = oc == "badcmd" and lk in ("socks5", "socks5p") and rng.random() < 0.4
        if badver:
            cmd = 1    # a CONNECT request whose version byte is not 5 although SOCKS5 was negotiated: not a request this listener can serve
        last_send = [o for o in hs if o["op"] == "send"][-1]
        for o in [last_send]:
            if o["op"] == "send":
                b = bytearray(bytes.fromhex(o["hex"]))
                if proto == "socks5":
                    j = b.rfind(bytes([5, 1, 0]))
                    if j >= 0:
                        b[j + 1] = cmd
                        if oc == "badcmd" and badver:
                            b[j] = rng.choice([4, 6, 7, 9, 0, 255])
                else:
                    b[1] = cmd
                o["hex"] = bytes(b).hex()
    # never depend on framed replies: record everything until the proxy closes the connection
    ops = []
    for o in hs:
        o = dict(o)
        o["on_fail"] = "continue"
        if o["op"] == "send":
            ops.append(o)
        elif proto == "socks5" and variant == "5" and o.get("label") in ("method", "authstatus"):
            ops.append(o)
    big = 400000
    ops.append(op("recv_eof", timeout_ms=big, label="rest", keep=65536))
    sc.add_client("c", li, ops, start_ms=10)
    sc.meta = {"cls": "%s/%s" % (lk, oc), "cfgkey": "%s/%s/%s" % (lk, oc, cname), "lk": lk, "oc": oc, "expect": expect, "proto": proto,
               "cid": "c" if lk != "quic" else "c/s0", "tls": lk in ("https", "quic"), "keep_ops": True, "creds": bool(creds), "oaddr": "%s:%d" % (oip, oport)}
    sc.max_ms = 600000
    return sc.plan(want_events=True)


def transcript(R, cid):
    """all bytes the client received, in order, and whether the connection reached EOF"""
    data = b""
    eof = False
    res_last = None
    for r in R.ops(cid):
        if r["op"].startswith("recv"):
            data += bytes.fromhex(r.get("hex", ""))
            res_last = r["res"]
            if r["res"].startswith("eof@") or "err:" in r["res"]:
                eof = True
    return data, eof, res_last


def classify(proto, data, creds):
    """-> (kind, detail) with kind in success / failure / refusal / none / malformed / extra"""
    try:
        if proto == "http":
            if not data:
                return "none", "no bytes"
            code, hdrs, rest = rc.parse_http_response(data)
            if code == 200:
                if rest:
                    return "extra", "bytes after the 200 head: %r" % rest[:60]
                return "success", code
            cl = rc.header(hdrs, "content-length")
            if cl is None:
                if rest:
                    return "malformed", "failure reply %d without Content-Length but with %d body bytes" % (code, len(rest))
                return "failure", code
            if not cl.isdigit():
                return "malformed", "bad Content-Length %r" % cl
            if int(cl) != len(rest):
                return "malformed", "HTTP %d advertises Content-Length %s but %d body bytes arrived before the close" % (code, cl, len(rest))
            return "failure", code
        if proto == "socks5":
            if not data:
                return "none", "no bytes"
            if len(data) < 2 or data[0] != 5:
                return "malformed", "bad method selection %r" % data[:4]
            if data[1] == 0xFF:
                return ("refusal", "no acceptable method") if len(data) == 2 else ("extra", "bytes after 05 FF: %r" % data[2:20])
            off = 2
            if data[1] == 2:
                if len(data) < 4:
                    return "none", "closed after method selection"
                if data[2] != 1:
                    return "malformed", "bad auth status version %r" % data[2:4]
                if data[3] != 0:
                    return ("refusal", "auth status %d" % data[3]) if len(data) == 4 else ("extra", "bytes after failed auth status")
                off = 4
            if len(data) == off:
                return "none", "closed before any reply to the request"
            rep, kind, host, port, rest = rc.parse_socks5_reply(data[off:])
            if rest:
                return "extra", "bytes after the reply (rep=%d): %r" % (rep, rest[:40])
            return ("success" if rep == 0 else "failure"), rep
        if proto in ("socks4", "socks4a"):
            if not data:
                return "none", "no bytes"
            code, rest = rc.parse_socks4_reply(data)
            if rest:
                return "extra", "bytes after the reply (code=%d): %r" % (code, rest[:40])
            return ("success" if code == 90 else "failure"), code
    except rc.ParseError as e:
        return "malformed", str(e)
    return "none", "?"


def oracle(plan, out):
    R = G.Result(out)
    meta = plan["meta"]
    V = []
    pair = "%s/%s" % (meta["proto"], meta["oc"])

    def v(clause, text, **d):
        V.append(Violation(ID, clause, "C06/%s/%s" % (clause, pair), text, d))

    if out["hung"] or not R.ok:
        v("crash", "process ended or hung: exit=%s %s" % (out["exit"], out["stderr"][-300:]))
        return V
    for p in R.panics():
        v("panic", "panic at %s: %s" % (p.get("loc"), p.get("msg", "")))
    cid = meta["cid"]
    conn = R.connect(cid.split("/")[0])
    if conn is None or conn.get("connect") != "ok":
        return V
    data, eof, last = transcript(R, cid)
    kind, detail = classify(meta["proto"], data, meta["creds"])
    contacted = len(R.accepts("origin")) + sum(1 for r in R.records if r.get("actor") == "uorigin" and r.get("udp") == "recv")
    up_est = meta["expect"] == "ok"
    if kind == "malformed":
        v("malformed-reply", "client received a reply that is not well formed: %s (raw %s)" % (detail, data[:120]))
    elif kind == "extra":
        v("second-reply", "more than one reply / stray bytes on the connection: %s (raw %s)" % (detail, data[:160]))
    elif kind == "success" and not up_est:
        v("success-without-upstream", "client was told 'established' (%s) although the outcome class is %s" % (detail, meta["oc"]))
    elif kind in ("failure", "refusal", "none") and up_est and meta["oc"] != "up-dies-after-ok":
        v("failure-despite-upstream", "upstream path was established (%s) but the client got %s (%s)" % (meta["oc"], kind, detail))
    elif kind == "none" and not up_est:
        v("no-reply", "outcome %s: the connection was closed (or left open) without any failure reply in the client's protocol (%s, last read %s)" % (meta["oc"], detail, last))
    if not up_est and meta["oc"] in ("deny", "norule", "bind", "badcmd", "badcreds", "udp-on-tcp-only", "http-unsupported") and contacted:
        v("upstream-contacted", "outcome %s must not open any upstream connection, but the origin was contacted %d times" % (meta["oc"], contacted))
    if not eof:
        if not (kind == "success" and meta["oc"] == "udp-assoc-timeout"):
            v("not-closed", "after its reply (%s) the proxy left the connection open (last read: %s)" % (kind, last))
    # ordering: success only after the upstream leg exists (plain listeners only: offsets are plaintext)
    if kind == "success" and not meta["tls"] and R.events:
        sim_id = conn.get("sim_id")
        writes = [e for e in R.events if e[2] == "tcp_write" and e[3] == sim_id and e[5] == "e1"]
        # offset of the first byte of the reply inside the proxy->client stream
        off = 0
        if meta["proto"] == "socks5":
            off = 2 if data[1] == 0 else 4
        cum = 0
        wseq = None
        for e in writes:
            cum += e[4]
            if cum > off:
                wseq = e[0]
                break
        est = None
        oc = meta["oc"]
        if oc == "ok":
            for e in R.events:
                if e[2] == "tcp_established" and meta["oaddr"] in e[5] and e[5].startswith("p>"):
                    est = e[0]
                    break
        elif oc.startswith("up-") and oc != "udp-assoc-timeout":
            for r in R.records:
                if r.get("actor") == "up-u" and r.get("op") == "send":
                    est = r["s0"]
        if wseq is not None and est is not None and wseq < est:
            v("success-before-established", "the success reply left the proxy (event %d) before the upstream leg was established (event %d)" % (wseq, est))
    return V


def probes(plan, out):
    R = G.Result(out)
    meta = plan["meta"]
    data, eof, last = transcript(R, meta["cid"]) if R.ok else (b"", False, None)
    return {"nontrivial": bool(data) or eof, "success_expected": meta["expect"] == "ok", "got_bytes": bool(data), "closed": eof}
