"""Generic driver for one property check: seeded search over plans, oracles, shrinking, evidence."""
import importlib
import json
import os
import sys
import time

from . import core


def tier_from_env(default="quick"):
    return os.environ.get("VERIF_TIER", default)


def seed_from_env():
    s = os.environ.get("VERIF_SEED")
    try:
        return int(s) if s not in (None, "") else core.DEFAULT_SEED
    except ValueError:
        return core.DEFAULT_SEED


def compact_sample(plan, limit=2400):
    """A plan with its bulky parts elided, for evidence samples."""
    p = {k: v for k, v in plan.items() if k not in ("files",)}
    t = json.dumps(p, sort_keys=True)
    if len(t) > limit:
        p = {"meta": plan.get("meta"), "seed": plan.get("seed"), "net": plan.get("net"),
             "actors": [{k: (v if k not in ("ops", "conns", "streams", "default_ops") else "<%d ops>" % len(json.dumps(v))) for k, v in a.items()} for a in plan.get("actors", [])],
             "faults": plan.get("faults", [])[:6]}
    return p


def run_check(prop_id, tier=None, seed=None, max_runs=None, budget=None):
    t_start = time.time()
    tier = tier or tier_from_env()
    seed = seed if seed is not None else seed_from_env()
    modname = "vlib.props.%s" % prop_id.lower()
    prop = importlib.import_module(modname)
    print("== %s tier=%s VERIF_SEED=%d" % (prop.ID, tier, seed), flush=True)
    bt = core.build()
    print("   build %.1fs" % bt, flush=True)
    budget = budget if budget is not None else prop.BUDGET[tier]
    max_runs = max_runs if max_runs is not None else prop.MAX_RUNS[tier]
    known = core.load_known()
    pool = core.Pool(modname)
    summaries = []
    t0 = time.time()
    nxt = 0
    batch = core.NPROC * 4
    try:
        while nxt < max_runs and (time.time() - t0) < budget:
            n = min(batch, max_runs - nxt)
            summaries.extend(pool.run(seed, tier, nxt, n, budget))
            nxt += n
    finally:
        pool.close()
    wall_runs = time.time() - t0
    summaries.sort(key=lambda s: s["i"])
    herr = [s for s in summaries if s.get("harness_error")]
    if herr:
        print(herr[0]["harness_error"][-3000:])
        core.die_harness("%d runs ended with a harness error (first shown above)" % len(herr))

    # ---- violations
    by_sig = {}
    for s in summaries:
        for v in s["violations"]:
            by_sig.setdefault(v["signature"], []).append((s, v))
    new_violations = []
    known_seen = {}
    for sig, lst in sorted(by_sig.items()):
        k = core.known_status(known, prop.ID, sig)
        if k is not None:
            known_seen[sig] = (k, len(lst))
        else:
            new_violations.append((sig, lst))
    for sig, (k, cnt) in sorted(known_seen.items()):
        print("KNOWN-FINDING: property=%s %s [%s] (seen in %d runs)" % (prop.ID, k.get("what", ""), sig, cnt))
    rc = 0
    replay_paths = []
    for sig, lst in new_violations[:4]:
        s, v = lst[0]
        plan = s["plan"]
        print("   violation %s in %d runs; first: run #%d: %s" % (sig, len(lst), s["i"], v["text"][:600]), flush=True)
        # confirm in a fresh process, then minimise
        try:
            again = core.evaluate(prop, plan, s["i"], tag="confirm-%d" % os.getpid())
        except core.HarnessError as e:
            core.die_harness("while confirming a violation: %s" % e)
        if not any(x["signature"] == sig for x in again["violations"]):
            core.die_harness("violation %s of run #%d did not reproduce in a fresh process: the simulation is not deterministic" % (sig, s["i"]))
        if again["log_hash"] != s["log_hash"]:
            core.die_harness("run #%d replayed with a different event-log hash (%s vs %s): nondeterminism" % (s["i"], again["log_hash"], s["log_hash"]))
        small, trace, nruns = core.shrink(prop, plan, sig, max_runs=prop.SHRINK_RUNS if hasattr(prop, "SHRINK_RUNS") else 100)
        final = core.evaluate(prop, small, s["i"], tag="final-%d" % os.getpid())
        fv = [x for x in final["violations"] if x["signature"] == sig]
        if not fv:
            small, final, fv = plan, again, [x for x in again["violations"] if x["signature"] == sig]
        path = core.write_replay(prop, small, fv[0], final["log_hash"], trace)
        replay_paths.append(path)
        print("   minimised with %d runs (%s)" % (nruns, ",".join(trace[:12])))
        print("VIOLATION property=%s replay=%s" % (prop.ID, path), flush=True)
        rc = 1
    if len(new_violations) > 4:
        for sig, lst in new_violations[4:]:
            print("   (further violation class not minimised: %s, %d runs, first run #%d: %s)" % (sig, len(lst), lst[0][0]["i"], lst[0][1]["text"][:300]))

    # ---- evidence
    nontriv = set()
    interleavings = set()
    cfgs = set()
    classes = {}
    counters = {}
    probes = {}
    virt = 0
    for s in summaries:
        interleavings.add(s["shape"])
        if s["cfgkey"]:
            cfgs.add(s["cfgkey"])
        classes[s["cls"]] = classes.get(s["cls"], 0) + 1
        virt += s["virt_us"]
        for k, v in s["counters"].items():
            counters[k] = counters.get(k, 0) + v
        pr = s.get("probes") or {}
        for k, v in pr.items():
            if k == "nontrivial":
                continue
            probes[k] = probes.get(k, 0) + (1 if v is True else (v if isinstance(v, int) else 0))
        if pr.get("nontrivial"):
            nontriv.add(s["shape"])
    samples = []
    for i in (0, len(summaries) // 2, len(summaries) - 1):
        if 0 <= i < len(summaries):
            import random
            rng = random.Random("%d/%s/%d" % (seed, prop.ID, summaries[i]["i"]))
            try:
                pl = prop.gen(rng, tier, summaries[i]["i"])
                samples.append(compact_sample(pl))
            except Exception:
                pass
    wall = time.time() - t_start
    ev = {
        "property_id": prop.ID,
        "tier": tier,
        "seed": seed,
        "level": "exploration",
        "coverage": {
            "evaluations": len(summaries),
            "distinct_nontrivial": len(nontriv),
            "rule": prop.RULE + (" " + prop.RULE_MORE if getattr(prop, "RULE_MORE", None) else ""),
            "samples": samples or ["no run completed"],
            "runs_per_hour": int(len(summaries) / max(wall_runs, 1e-6) * 3600),
            "simulated_seconds": round(virt / 1e6, 3),
            "distinct_interleavings": len(interleavings),
            "interleaving_measure": "distinct hashes of the per-run sequence of (event kind, connection/socket id) in the simulator's event log",
            "distinct_configurations": len(cfgs),
            "plan_classes": classes,
            "faults_and_chaos_fired": counters,
            "probes": probes,
            "real_components": getattr(prop, "REAL", "whole redproxy-rs binary incl. main() start-up, tokio scheduler/timers, rustls, quinn, hyper/axum"),
            "stubbed_components": getattr(prop, "STUB", "TCP/UDP sockets and address space (in-memory), both clocks (virtual), OS entropy (seeded), DNS, config/access-log files, external auth command, SIGUSR1"),
            "known_findings_seen": {sig: cnt for sig, (k, cnt) in known_seen.items()},
            "replays": replay_paths,
        },
        "assumptions": getattr(prop, "ASSUMPTIONS", []) + [
            "single-threaded deterministic runtime: interleavings are explored at task granularity",
            "TCP is modelled as FIFO byte pipes with FIN/RST and finite buffers; real kernel TCP behaviours (Nagle, MSS, keep-alive probes) are not modelled",
        ],
        "wall_s": round(wall, 2),
        "violations": len(new_violations),
    }
    os.makedirs(core.EVIDENCE, exist_ok=True)
    with open(os.path.join(core.EVIDENCE, "%s.json" % prop.ID), "w") as f:
        json.dump(ev, f, indent=1, sort_keys=True)
    print("   %d runs, %d distinct interleavings, %d non-trivial, %.1f virtual s, %.1fs wall, %d new violation classes, %d known" % (
        len(summaries), len(interleavings), len(nontriv), virt / 1e6, wall, len(new_violations), len(known_seen)), flush=True)
    return rc
