"""Reference codecs written independently of the repository's: message builders for the
harness' clients/upstreams and strict parsers for what the proxy emitted."""
import ipaddress
import struct


def hx(b):
    return bytes(b).hex()


def unhex(s):
    return bytes.fromhex(s)


# ---------------------------------------------------------------------------------------
# HTTP/1.1 CONNECT

def http_connect(target, headers=None, version="HTTP/1.1", method="CONNECT"):
    """target is bytes or str 'host:port'."""
    if isinstance(target, str):
        target = target.encode("utf-8", "surrogateescape")
    out = method.encode() + b" " + target + b" " + version.encode() + b"\r\n"
    for k, v in (headers or [("Host", target)]):
        if isinstance(v, str):
            v = v.encode("utf-8", "surrogateescape")
        out += k.encode() + b": " + v + b"\r\n"
    return out + b"\r\n"


class ParseError(Exception):
    pass


def parse_http_head(data):
    """Strict parse of one HTTP message head. Returns (start_line_parts, headers(list), rest)."""
    i = data.find(b"\r\n\r\n")
    if i < 0:
        raise ParseError("no end of head")
    head, rest = data[:i], data[i + 4:]
    lines = head.split(b"\r\n")
    start = lines[0]
    hdrs = []
    for ln in lines[1:]:
        if b":" not in ln:
            raise ParseError("header without colon: %r" % ln)
        k, v = ln.split(b":", 1)
        if not k or k != k.strip() or any(c <= 32 or c >= 127 for c in k):
            raise ParseError("bad header name: %r" % k)
        hdrs.append((k.decode("latin1"), v.strip(b" \t").decode("latin1")))
    if b"\r" in head.replace(b"\r\n", b"") or b"\n" in head.replace(b"\r\n", b""):
        raise ParseError("bare CR or LF inside head")
    return start, hdrs, rest


def parse_http_response(data):
    start, hdrs, rest = parse_http_head(data)
    parts = start.split(b" ", 2)
    if len(parts) < 2 or not parts[0].startswith(b"HTTP/1."):
        raise ParseError("bad status line %r" % start)
    try:
        code = int(parts[1])
    except ValueError:
        raise ParseError("bad status code %r" % start)
    if len(parts[1]) != 3:
        raise ParseError("status code not 3 digits %r" % start)
    return code, hdrs, rest


def parse_http_request(data):
    start, hdrs, rest = parse_http_head(data)
    parts = start.split(b" ")
    if len(parts) != 3 or not parts[2].startswith(b"HTTP/1."):
        raise ParseError("bad request line %r" % start)
    return parts[0], parts[1], parts[2], hdrs, rest


def header(hdrs, name, default=None):
    for k, v in hdrs:
        if k.lower() == name.lower():
            return v
    return default


# ---------------------------------------------------------------------------------------
# SOCKS

def socks5_greeting(methods):
    return bytes([5, len(methods)]) + bytes(methods)


def socks5_userpass(user, pw):
    if isinstance(user, str):
        user = user.encode("utf-8", "surrogateescape")
    if isinstance(pw, str):
        pw = pw.encode("utf-8", "surrogateescape")
    return bytes([1, len(user)]) + user + bytes([len(pw)]) + pw


def socks_addr(host, port):
    """SOCKS5 address encoding for an IP literal or a domain (bytes/str)."""
    if isinstance(host, str):
        try:
            ip = ipaddress.ip_address(host)
            if ip.version == 4:
                return bytes([1]) + ip.packed + struct.pack(">H", port)
            return bytes([4]) + ip.packed + struct.pack(">H", port)
        except ValueError:
            host = host.encode("utf-8", "surrogateescape")
    return bytes([3, len(host)]) + host + struct.pack(">H", port)


def socks5_request(cmd, host, port, force_domain=False):
    if force_domain:
        h = host.encode("utf-8", "surrogateescape") if isinstance(host, str) else host
        return bytes([5, cmd, 0, 3, len(h)]) + h + struct.pack(">H", port)
    return bytes([5, cmd, 0]) + socks_addr(host, port)


def socks4_request(cmd, host, port, userid=b""):
    if isinstance(userid, str):
        userid = userid.encode()
    try:
        ip = ipaddress.IPv4Address(host) if isinstance(host, str) else None
    except ValueError:
        ip = None
    if ip is not None:
        return bytes([4, cmd]) + struct.pack(">H", port) + ip.packed + userid + b"\0"
    h = host.encode("utf-8", "surrogateescape") if isinstance(host, str) else host
    return bytes([4, cmd]) + struct.pack(">H", port) + bytes([0, 0, 0, 1]) + userid + b"\0" + h + b"\0"


def parse_socks_addr(data, off):
    """returns (kind, host(bytes or ip str), port, new_off)"""
    if off >= len(data):
        raise ParseError("truncated address")
    atyp = data[off]
    off += 1
    if atyp == 1:
        if len(data) < off + 6:
            raise ParseError("truncated ipv4")
        return "ipv4", str(ipaddress.IPv4Address(data[off:off + 4])), struct.unpack(">H", data[off + 4:off + 6])[0], off + 6
    if atyp == 4:
        if len(data) < off + 18:
            raise ParseError("truncated ipv6")
        return "ipv6", str(ipaddress.IPv6Address(data[off:off + 16])), struct.unpack(">H", data[off + 16:off + 18])[0], off + 18
    if atyp == 3:
        if len(data) < off + 1:
            raise ParseError("truncated domain")
        n = data[off]
        if len(data) < off + 1 + n + 2:
            raise ParseError("truncated domain")
        return "domain", data[off + 1:off + 1 + n], struct.unpack(">H", data[off + 1 + n:off + 3 + n])[0], off + 3 + n
    raise ParseError("bad atyp %d" % atyp)


def parse_socks5_reply(data):
    """VER REP RSV ATYP ADDR PORT -> (rep, kind, host, port, rest)"""
    if len(data) < 4:
        raise ParseError("short reply")
    if data[0] != 5:
        raise ParseError("reply version %d" % data[0])
    kind, host, port, off = parse_socks_addr(data, 3)
    return data[1], kind, host, port, data[off:]


def parse_socks5_request(data):
    if len(data) < 4 or data[0] != 5:
        raise ParseError("bad request head %r" % data[:4])
    kind, host, port, off = parse_socks_addr(data, 3)
    return data[1], kind, host, port, data[off:]


def parse_socks4_reply(data):
    if len(data) < 8:
        raise ParseError("short socks4 reply")
    if data[0] != 0:
        raise ParseError("socks4 reply vn %d" % data[0])
    return data[1], data[8:]


def parse_socks4_request(data):
    """-> (cmd, kind, host, port, userid, rest)"""
    if len(data) < 9 or data[0] != 4:
        raise ParseError("bad socks4 request")
    cmd = data[1]
    port = struct.unpack(">H", data[2:4])[0]
    ip = data[4:8]
    i = data.find(b"\0", 8)
    if i < 0:
        raise ParseError("unterminated userid")
    userid = data[8:i]
    off = i + 1
    if ip[0] == 0 and ip[1] == 0 and ip[2] == 0 and ip[3] != 0:
        j = data.find(b"\0", off)
        if j < 0:
            raise ParseError("unterminated domain")
        return cmd, "domain", data[off:j], port, userid, data[j + 1:]
    return cmd, "ipv4", str(ipaddress.IPv4Address(ip)), port, userid, data[off:]


def socks5_udp_wrap(host, port, payload):
    return b"\0\0\0" + socks_addr(host, port) + payload


def parse_socks5_udp(data):
    if len(data) < 4:
        raise ParseError("short udp header")
    # RSV (2 bytes) is not checked: no property speaks of the reserved bytes (the proxy writes 05 03 there)
    kind, host, port, off = parse_socks_addr(data, 3)
    return data[2], kind, host, port, data[off:]


# ---------------------------------------------------------------------------------------
# RPFM (UDP over stream) frames, as documented in src/common/frames.rs

RPFM = 0x5250464D


def rpfm_frame(session, host, port, body):
    if host is None:
        attr = b""
    else:
        ip = None
        if isinstance(host, str):
            try:
                ip = ipaddress.ip_address(host)
            except ValueError:
                host = host.encode("utf-8", "surrogateescape")
        if ip is not None and ip.version == 4:
            attr = bytes([1, 6]) + ip.packed + struct.pack(">H", port)
        elif ip is not None:
            attr = bytes([2, 18]) + ip.packed + struct.pack(">H", port)
        else:
            attr = bytes([3, (len(host) + 2) & 0xff]) + host + struct.pack(">H", port)
    return struct.pack(">IIHH", RPFM, session, len(attr), len(body)) + attr + body


def parse_rpfm(data):
    """-> (session, kind, host, port, body, rest)"""
    if len(data) < 12:
        raise ParseError("short rpfm")
    magic, session, al, bl = struct.unpack(">IIHH", data[:12])
    if magic != RPFM:
        raise ParseError("bad magic")
    if len(data) < 12 + al + bl:
        raise ParseError("truncated rpfm")
    attr = data[12:12 + al]
    body = data[12 + al:12 + al + bl]
    rest = data[12 + al + bl:]
    kind = host = port = None
    if attr:
        if len(attr) < 2:
            raise ParseError("short attr")
        t, ln = attr[0], attr[1]
        v = attr[2:]
        if ln != len(v):
            raise ParseError("attr len %d != %d" % (ln, len(v)))
        if t == 1 and ln == 6:
            kind, host, port = "ipv4", str(ipaddress.IPv4Address(v[:4])), struct.unpack(">H", v[4:6])[0]
        elif t == 2 and ln == 18:
            kind, host, port = "ipv6", str(ipaddress.IPv6Address(v[:16])), struct.unpack(">H", v[16:18])[0]
        elif t == 3 and ln >= 2:
            kind, host, port = "domain", v[:-2], struct.unpack(">H", v[-2:])[0]
        else:
            raise ParseError("bad attr tag %d len %d" % (t, ln))
    return session, kind, host, port, body, rest


def parse_rpfm_prefix(raw):
    """Parse a frame of which only a prefix was kept: -> (kind, host, port, body_len, body_prefix)"""
    if len(raw) < 12:
        raise ParseError("short rpfm")
    magic, session, al, bl = struct.unpack(">IIHH", raw[:12])
    if magic != RPFM:
        raise ParseError("bad magic")
    if len(raw) < 12 + al:
        raise ParseError("attr cut")
    hdr = struct.pack(">IIHH", RPFM, session, al, 0) + raw[12:12 + al]
    _, kind, host, port, _, _ = parse_rpfm(hdr)
    return kind, host, port, bl, raw[12 + al:]


def quic_fragments(frame_bytes, mtu, frag_id):
    """Split like the documented fragment header: id:u16 total:u8 seq:u8."""
    size = mtu - 4
    chunks = [frame_bytes[i:i + size] for i in range(0, len(frame_bytes), size)] or [b""]
    total = len(chunks)
    return [struct.pack(">HBB", frag_id & 0xffff, total & 0xff, i & 0xff) + c for i, c in enumerate(chunks)]


def fnv64(data):
    h = 0xcbf29ce484222325
    for b in data:
        h ^= b
        h = (h * 0x100000001b3) & 0xffffffffffffffff
    return "%016x" % h
