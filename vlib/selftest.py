"""./check selftest-determinism [--runs N]: every plan is executed twice in separate processes, once from a pool of 16
workers and once from a pool of 3, and the complete result documents (event-log hash, records, counters) are compared."""
import hashlib
import importlib
import json
import multiprocessing as mp
import random
import sys

from . import core

PROPS = ["C01", "C02", "C03", "C04", "C05", "C06", "C07", "C10", "C11", "C12", "C13", "C14", "C15", "C16", "C17", "C18", "C19"]


def _one(job):
    pid, i, seed = job
    prop = importlib.import_module("vlib.props.%s" % pid.lower())
    rng = random.Random("%d/%s/%d" % (seed, prop.ID, i))
    plan = prop.gen(rng, "quick", i)
    plan.setdefault("seed", rng.getrandbits(62))
    try:
        out = core.run_plan(plan, tag="det-%s-%d-%d" % (pid, i, mp.current_process().pid))
    except core.HarnessError as e:
        return (pid, i, "HARNESS:" + str(e)[:200], None)
    r = out["result"]
    # the body of GET /api/metrics renders statistics of the real process (/proc): its hash is the one thing that is
    # allowed to differ between executions; plans name the actors concerned
    nd = set(plan.get("meta", {}).get("nondeterministic_bodies", []))
    if r is not None and nd:
        for rec in r.get("records", []):
            if rec.get("actor") in nd:
                rec.pop("rhash", None)
    doc = json.dumps(r, sort_keys=True) if r is not None else "exit=%s stderr=%s" % (out["exit"], out["stderr"][-300:])
    return (pid, i, hashlib.sha256(doc.encode()).hexdigest(), (r or {}).get("log_hash"))


def determinism(runs, seed=None):
    seed = seed if seed is not None else core.DEFAULT_SEED
    core.build()
    per = max(1, runs // len(PROPS))
    jobs = [(p, i, seed) for p in PROPS for i in range(per)]
    with mp.Pool(16) as pool:
        a = pool.map(_one, jobs, chunksize=1)
    with mp.Pool(3) as pool:
        b = pool.map(_one, jobs, chunksize=1)
    bad = 0
    kernel = 0
    for x, y in zip(a, b):
        if x[2] != y[2]:
            bad += 1
            print("DIVERGENCE %s run %d: %s vs %s (log hashes %s / %s)" % (x[0], x[1], x[2][:12], y[2][:12], x[3], y[3]))
    print("determinism self-test: %d plans x 2 executions (16 and 3 workers), %d divergences" % (len(jobs), bad))
    if bad:
        print("HARNESS-ERROR: the simulation is not deterministic")
        return 2
    return 0
