"""./check debug <replay-or-plan file> [--tier trace]: run one plan and print what happened."""
import importlib
import json

from . import core


def show(path, level=None):
    with open(path) as f:
        d = json.load(f)
    plan = d.get("plan", d)
    if level:
        plan = dict(plan)
        plan["argv"] = ["-c", "/sim/config.yaml", "-l", level]
    core.build()
    out = core.run_plan(plan, tag="debug")
    res = out["result"] or {}
    print("exit", out["exit"], "hung", out["hung"], "end_us", res.get("end_us"), "log_hash", res.get("log_hash"))
    print("counters", res.get("counters"))
    for r in res.get("records", []):
        r = dict(r)
        if "hex" in r:
            try:
                b = bytes.fromhex(r["hex"])
                r["data"] = repr(b[:160])
                del r["hex"]
            except ValueError:
                pass
        print(json.dumps(r, sort_keys=True))
    print("panics", res.get("panics"))
    print("open_conns", res.get("open_conns"))
    if level:
        print("---- stdout"); print(out["stdout"])
    print("---- stderr"); print(out["stderr"][-3000:])
    if "property" in d:
        prop = importlib.import_module("vlib.props.%s" % d["property"].lower())
        for v in prop.oracle(plan, out):
            print("VIOL", v.signature, "::", v.text)
    return 0
